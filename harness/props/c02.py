"""C02 - Replies decode to the values the schema says they carry."""
import random

from harness import common, wsdlkit, xmlread
from harness import iface as IF, ifacecheck as K, schemamodel as SM

ID = "C02"
LEAN_MODULES = ["SudsModel.Props.C02"]
RULE = ("generated interface family (as C01, every fifth interface rpc/encoded) x every operation x schema-valid "
        "response values (absent / nil / single / repeated members, derived types, attributes, arrays) x "
        "presentations of the same infoset by an independent writer (plain + 3 random: prefix names, default "
        "namespace placement, prefix shadowing, entity vs character references, CDATA, comments, insignificant "
        "whitespace, SOAP 1.1/1.2 envelope); each reply is injected into a real invocation and the returned Python "
        "data compared, strictly typed, with the abstract value (reference decoder) and with the Lean decoder "
        "model run on the infoset; all presentations of one value must decode equal; plus a separate stream of nil "
        "items inside repeating elements; non-trivial = every (interface, operation, value, presentation); "
        "distinct = distinct of those"
        ' ; plus streams: nil items in repeating elements, simpleContent, same-named local elements / attributes with different types in different parents, nilled elements carrying attributes (schema-instance namespace under several prefixes)'
        ' ; arrays of arrays; two ports with one operation name and different outputs on one client'
        ' ; a nillable anyType element present and empty'
        ' ; an encoded array in a reply that never declares the schema-instance namespace'
        ' ; xsi:type on members below the top level; the members of repeating groups'
        ' ; an attribute named href; leaves that say they are not nil; envelope attributes on payload leaves'
        ' ; zones of less than an hour; a reply element carrying an id'
        ' ; attributes named like Python words')
ASSUMPTIONS = ["alphabet: no empty strings and no content-free objects (suds decodes both to None / '', pinned by "
               "its tests), no mixed content", "the reply writer is iface.write_envelope; expat re-reads every "
               "envelope before it is injected, so the writer's output is well-formed by an independent judge"]
PARTIAL = [{"theorem": "decode_marshal_roundtrip (every tree)", "missing": "proved for every flat struct "
            "(flat_struct_roundtrip: any members with builtin types, absent / single / repeating of any length, any "
            "form and namespace), for leaves and nil; nested objects, attributes and derived types are covered by "
            "the per-rule theorems and by the whole-tree correspondence on generated trees, not by one theorem"}]
TRUSTED = ["pyexpat", "iface.py writer and reference decoder"]
CLASSIFIERS = {}


def c02_nil_first_item(f, k):
    """D32 exactly: the first item is nil and the result is the remaining items."""
    inp = f.get("input") or {}
    items = inp.get("items")
    return inp.get("stream") == "nil-items" and bool(items) and items[0] is None and f.get("observed") == items[1:]


CLASSIFIERS["c02_nil_first_item"] = c02_nil_first_item


def c02_simple_content(f, k):
    """D38: only the dedicated simpleContent stream, and only 'text left as str'."""
    inp = f.get("input") or {}
    return inp.get("stream") == "simple-content" and f.get("kind") == "untranslated-text"


CLASSIFIERS["c02_simple_content"] = c02_simple_content


SC_SCHEMA = ('<xsd:complexType name="Money"><xsd:simpleContent><xsd:extension base="xsd:decimal"><xsd:attribute '
             'name="currency" type="xsd:string"/><xsd:attribute name="n" type="xsd:int"/></xsd:extension>'
             '</xsd:simpleContent></xsd:complexType><xsd:element name="f"><xsd:complexType><xsd:sequence/>'
             '</xsd:complexType></xsd:element><xsd:element name="fResponse"><xsd:complexType><xsd:sequence>'
             '<xsd:element name="r" type="x:Money"/><xsd:element name="rs" type="x:Money" minOccurs="0" '
             'maxOccurs="unbounded"/><xsd:element name="k" type="xsd:int"/></xsd:sequence></xsd:complexType>'
             '</xsd:element>')


def simple_content_reply():
    import decimal
    client = wsdlkit.client(wsdlkit.wsdl_doc(SC_SCHEMA, "f", "fResponse"))
    data = ('<e:Envelope xmlns:e="%s"><e:Body><fResponse xmlns="%s"><r currency="EUR" n="3">1.50</r><rs>2</rs>'
            '<rs n="1">3</rs><k>5</k></fResponse></e:Body></e:Envelope>' % (xmlread.ENV11, wsdlkit.TNS)).encode()
    r = client.service.f(__inject={"reply": data})
    shape_ok = (str(r.r._currency) == "EUR" and r.r._n == 3 and type(r.r._n) is int and r.k == 5 and len(r.rs) == 2
                and r.rs[1]._n == 1)
    values = [r.r.value, r.rs[0], r.rs[1].value]
    typed = all(isinstance(v, decimal.Decimal) for v in values)
    return shape_ok, typed, [repr(v) for v in values]


def simple_content(ctx):
    """Separate stream: a simpleContent extension of xsd:decimal with attributes (known finding D38)."""
    meta = {"stream": "simple-content"}
    ctx.case(common.canon(meta), True)
    try:
        shape_ok, typed, values = simple_content_reply()
    except Exception as e:
        ctx.fail("decoding a simpleContent reply raised", meta, "%s: %s" % (type(e).__name__, e), "values + attributes")
        return
    if not shape_ok:
        ctx.fail("attributes / structure of a simpleContent reply are wrong", meta, values, "attributes typed, lists kept",
                 kind="shape")
    if not typed:
        ctx.fail("the text of a simpleContent element is not translated to its base type", meta, values,
                 "Decimal values", kind="untranslated-text")


def presentations(ident, op, case, n):
    out = [("plain", IF.plain_presentation(random.Random(0)))]
    for k in range(n):
        rng = random.Random("pres:%s:%s:%d:%d" % (ident, op["name"], case, k))
        out.append(("p%d" % k, IF.Presentation(rng, soap12=rng.random() < 0.25)))
    return out


def run(ctx):
    n_ifaces = ctx.pick(300, 5000)
    cases = ctx.pick(3, 5)
    npres = ctx.pick(3, 6)
    reqs, metas = [], []
    for ident, I in K.family(ctx, n_ifaces, "C02"):
        K.shape_stats(ctx, I)
        rident = "canonical" if ctx.rng.random() < 0.6 else "r:" + ident
        docs = IF.render(K.rendering_of(rident, anonymous=False), I)
        try:
            client = K.make_client(docs, nosend=False)
        except Exception as e:
            ctx.fail("WSDL of the family does not load", {"iface": ident, "rendering": rident}, repr(e), "a client")
            continue
        env = SM.env_json(I)
        for op in I["ops"]:
            for case in range(cases):
                outvals = K.outvals_of(ident, I, op, case)
                for v in outvals.values():
                    K.value_stats(ctx, v)
                nodes = IF.spec_reply_nodes(I, op, outvals)
                expected = IF.spec_result(I, op, outvals)
                results = []
                for pname, pr in presentations(ident, op, case, npres):
                    meta = {"iface": ident, "rendering": rident, "op": op["name"], "case": case, "presentation": pname}
                    ctx.case(common.canon(meta), True)
                    ctx.dist["style=" + op["style"]] += 1
                    data = IF.write_envelope(pr, nodes)
                    try:
                        xmlread.parse(data)
                    except xmlread.XmlError as e:
                        ctx.notes.append("writer produced ill-formed XML (%s) for %s" % (e, meta))
                        continue
                    try:
                        got = K.decode_reply(client, op, data)
                    except Exception as e:
                        ctx.fail("decoding a schema-valid reply raised", meta, "%s: %s" % (type(e).__name__, e),
                                 repr(expected)[:1500], reply=data.decode("utf-8", "replace")[:3000])
                        continue
                    results.append(got)
                    if not K.same_value(got, expected):
                        ctx.fail("decoded value differs from the value the reply encodes", meta, repr(got)[:1500],
                                 repr(expected)[:1500], reply=data.decode("utf-8", "replace")[:3000])
                if results and any(not K.same_value(r, results[0]) for r in results[1:]):
                    ctx.fail("two presentations of one infoset decode differently",
                             {"iface": ident, "rendering": rident, "op": op["name"], "case": case},
                             [repr(r)[:400] for r in results], "equal results")
                if results:
                    reqs.append({"op": "schema.reply", "env": env, "operation": SM.op_json(I, op),
                                 "unwrap": list(op["out"][0]["type"][1]) if IF.unwraps_out(op) else None,
                                 "body": [SM.info_in(n) for n in nodes]})
                    metas.append(({"iface": ident, "rendering": rident, "op": op["name"], "case": case,
                                   "presentation": "plain"}, SM.py_canon_suds(results[0]),
                                  SM.py_canon_suds(expected)))
    answers = ctx.driver.ask(reqs)
    for ans, (meta, got, exp) in zip(answers, metas):
        model = SM.py_canon_model(ans)
        ctx.compare("decode-model-vs-suds", meta, got, model)
        ctx.compare("decode-model-vs-reference", meta, exp, model)
    nil_items(ctx)
    simple_content(ctx)
    same_name_contexts(ctx)
    nil_with_attributes(ctx)
    typed_members_and_repeating_groups(ctx)
    attributes_named_like_python_words(ctx)
    plain_href_not_nil_and_envelope_attributes(ctx)
    outlined_presentations(ctx)
    times_and_mixed_use(ctx)
    arrays_of_arrays_and_two_ports(ctx)
    if metas:
        ctx.sample({"input": metas[0][0], "decoded": metas[0][1]})


NIL_SCHEMA = ('<xsd:element name="f"><xsd:complexType><xsd:sequence/></xsd:complexType></xsd:element>'
              '<xsd:complexType name="R"><xsd:sequence><xsd:element name="a" type="xsd:int" '
              'nillable="true" minOccurs="0" maxOccurs="unbounded"/><xsd:element name="b" type="xsd:string"/>'
              '</xsd:sequence></xsd:complexType>'
              '<xsd:element name="fResponse"><xsd:complexType><xsd:sequence><xsd:element name="r" type="x:R"/>'
              '</xsd:sequence></xsd:complexType></xsd:element>')


def nil_items(ctx):
    """Separate stream: nil items inside a repeating nillable element."""
    schema = NIL_SCHEMA
    client = wsdlkit.client(wsdlkit.wsdl_doc(schema, "f", "fResponse"))
    reqs, metas = [], []
    import itertools
    for n in range(1, ctx.pick(4, 6)):
        for pattern in itertools.product([None, 1, 2], repeat=n):
            items = "".join('<a xsi:nil="true"/>' if x is None else "<a>%d</a>" % x for x in pattern)
            data = ('<e:Envelope xmlns:e="%s" xmlns:xsi="%s"><e:Body><fResponse xmlns="%s"><r>%s<b>t</b></r></fResponse>'
                    '</e:Body></e:Envelope>' % (xmlread.ENV11, xmlread.XSI, wsdlkit.TNS, items)).encode()
            meta = {"stream": "nil-items", "items": list(pattern)}
            ctx.case(common.canon(meta), None in pattern)
            ctx.dist["nil-items:" + ("with-nil" if None in pattern else "no-nil")] += 1
            r = client.service.f(__inject={"reply": data})
            got = list(r.a) if hasattr(r, "a") else None
            exp = list(pattern)
            if got != exp:
                ctx.fail("nil items of a repeating element are not all decoded as None", meta, got, exp)
            reqs.append({"op": "schema.accumulate", "items": [{"key": "a", "multi": True, "value": None if x is None else str(x)}
                                                               for x in pattern]})
            metas.append((meta, got))
    for ans, (meta, got) in zip(ctx.driver.ask(reqs), metas):
        model = None
        for k, v in ans:
            if k == "a":
                model = [None if x is None else int(x["text"]) for x in v["list"]]
        ctx.compare("accumulate-model-vs-suds", meta, got, model)


def outlined_presentations(ctx):
    """For an rpc/encoded reply, writing a value out of line (href / independent element) is one more presentation
    choice of the serializer: the decoded result equals that of the inlined reply - also when the independent
    elements declare, on themselves, the prefixes their own xsi:type / arrayType values use."""
    from harness.props import c18
    rng = ctx.rng
    clients = {k: wsdlkit.client(c18.make_wsdl(t)) for k, t in (("Person", "x:Person"), ("People", "x:ArrayOfPerson"))}
    for _ in range(ctx.pick(60, 1200)):
        kind = rng.choice(["Person", "People"])
        v = c18.gen_value(rng, kind)
        c = clients[kind]
        try:
            base = c18.canon(c.service.f("x", __inject={"reply": c18.Writer(rng, 0.0, False, "num", "after", True).envelope(v)}))
        except Exception as e:
            ctx.fail("decoding a schema-valid reply raised", {"stream": "outlined", "value": repr(v)[:300]}, repr(e), "a value")
            continue
        for _k in range(3):
            wtr = c18.Writer(rng, rng.choice([0.3, 0.6, 0.9]), rng.random() < 0.5, "num", "after", True)
            wtr.local = rng.random() < 0.7
            doc = wtr.envelope(v)
            meta = {"stream": "outlined", "doc": doc.decode("utf-8"), "outlined": wtr.outlined, "local_prefixes": wtr.local}
            ctx.case(common.digest(meta["doc"]), wtr.outlined > 0)
            try:
                got = c18.canon(c.service.f("x", __inject={"reply": doc}))
            except Exception as e:
                ctx.fail("decoding a schema-valid reply raised", meta, "%s: %s" % (type(e).__name__, e), repr(base)[:1500])
                continue
            if got != base:
                ctx.fail("two presentations of one reply decode differently", meta, repr(got)[:1500], repr(base)[:1500])


def times_and_mixed_use(ctx):
    """(a) xsd:time leaves (the generated family has dates and dateTimes only): zones of every kind and fractional
    seconds of any length, rounded half-up to the microsecond, the UTC offset kept. (b) an rpc operation whose input
    body is literal and whose output body is encoded: the reply is decoded by the OUTPUT's rules (a soapenc array of
    ints is a list of ints)."""
    import datetime
    schema = ('<xsd:element name="f"><xsd:complexType><xsd:sequence/></xsd:complexType></xsd:element>'
              '<xsd:element name="fResponse"><xsd:complexType><xsd:sequence><xsd:element name="t" type="xsd:time" '
              'maxOccurs="unbounded"/></xsd:sequence></xsd:complexType></xsd:element>')
    client = wsdlkit.client(wsdlkit.wsdl_doc(schema, "f", "fResponse"))
    cases = [("08:30:00", (8, 30, 0, 0), None), ("08:30:00Z", (8, 30, 0, 0), 0), ("08:30:00.5+02:00", (8, 30, 0, 500000), 120),
             ("08:30:00.1234567+02:00", (8, 30, 0, 123457), 120), ("08:30:00.1234564-05:30", (8, 30, 0, 123456), -330),
             ("23:59:58.9999995Z", (23, 59, 59, 0), 0), ("08:30:00.9999999+01:00", (8, 30, 1, 0), 60),
             ("00:00:00.0000005-00:00", (0, 0, 0, 1), 0), ("12:00:00.1234565", (12, 0, 0, 123457), None),
             # zones west of Greenwich by less than an hour, and their eastern mirror images
             ("08:30:00-00:30", (8, 30, 0, 0), -30), ("08:30:00+00:30", (8, 30, 0, 0), 30), ("08:30:00-00:01", (8, 30, 0, 0), -1),
             ("08:30:00-01:15", (8, 30, 0, 0), -75), ("08:30:00-00:45", (8, 30, 0, 0), -45)]
    data = ('<e:Envelope xmlns:e="%s"><e:Body><fResponse xmlns="%s">%s</fResponse></e:Body></e:Envelope>'
            % (xmlread.ENV11, wsdlkit.TNS, "".join("<t>%s</t>" % c[0] for c in cases))).encode()
    meta = {"stream": "time-leaves", "texts": [c[0] for c in cases]}
    ctx.case(common.canon(meta), True)
    try:
        r = client.service.f(__inject={"reply": data})
        r = getattr(r, "t", r)
        got = [[type(x).__name__, (x.hour, x.minute, x.second, x.microsecond),
                None if x.utcoffset() is None else int(x.utcoffset().total_seconds() // 60)]
               if isinstance(x, datetime.time) else repr(x) for x in r]
    except Exception as e:
        got = "%s: %s" % (type(e).__name__, e)
    want = [["time", c[1], c[2]] for c in cases]
    if got != want:
        ctx.fail("xsd:time leaves are not decoded to the time (and UTC offset) the text denotes", meta, got, want)
    # (b)
    w = wsdlkit.wsdl_doc('<xsd:import namespace="http://schemas.xmlsoap.org/soap/encoding/"/><xsd:complexType name="Ints">'
                         '<xsd:complexContent><xsd:restriction base="soapenc:Array"><xsd:attribute ref="soapenc:arrayType" '
                         'wsdl:arrayType="xsd:int[]"/></xsd:restriction></xsd:complexContent></xsd:complexType>',
                         style="rpc", use="literal", in_parts=[("a", "type", "xsd:string")],
                         out_parts=[("r", "type", "x:Ints")])
    marker = b'<wsdl:output><soap:body use="literal"'
    assert w.count(marker) == 1
    w = w.replace(marker, b'<wsdl:output><soap:body encodingStyle="http://schemas.xmlsoap.org/soap/encoding/" use="encoded"')
    reply = ('<e:Envelope xmlns:e="%s" xmlns:xsi="%s" xmlns:xsd="%s" xmlns:soapenc="%s"><e:Body><m:fResponse xmlns:m="%s">'
             '<r xsi:type="soapenc:Array" soapenc:arrayType="xsd:int[3]"><item>1</item><item>22</item><item>333</item></r>'
             '</m:fResponse></e:Body></e:Envelope>' % (xmlread.ENV11, xmlread.XSI, xmlread.XSD, xmlread.ENC, wsdlkit.TNS)).encode()
    meta = {"stream": "input-literal-output-encoded"}
    ctx.case(common.canon(meta), True)
    try:
        got = client2_result = wsdlkit.client(w).service.f("x", __inject={"reply": reply})
        got = [type(got).__name__, [[type(x).__name__, x] for x in got] if isinstance(got, list) else repr(got)]
    except Exception as e:
        got = "%s: %s" % (type(e).__name__, e)
    if got != ["list", [["int", 1], ["int", 22], ["int", 333]]]:
        ctx.fail("a reply is not decoded by the rules of the operation's OUTPUT body (encoded) when the input body is "
                 "literal", meta, got, ["list", [["int", 1], ["int", 22], ["int", 333]]])


def arrays_of_arrays_and_two_ports(ctx):
    """(a) an rpc/encoded array of arrays (arrayType with two bracket groups) decodes to its integers; (b) two ports of
    one service whose port types define an operation of one name with different outputs, both invoked on one client
    in either order: each reply is decoded by the output of its own port's operation."""
    from harness.props import c18
    env = ('<e:Envelope xmlns:e="%s" xmlns:xsi="%s" xmlns:xsd="%s" xmlns:soapenc="%s" xmlns:x="%s"><e:Body>'
           '<m:fResponse xmlns:m="%s">%%s</m:fResponse></e:Body></e:Envelope>'
           % (xmlread.ENV11, xmlread.XSI, xmlread.XSD, xmlread.ENC, wsdlkit.TNS, wsdlkit.TNS))
    row = '<item soapenc:arrayType="xsd:int[2]">%s</item>'
    doc = env % ('<return xsi:type="x:Matrix" soapenc:arrayType="xsd:int[][2]">%s</return>'
                 % (row % "<i>1</i><i>2</i>" + row % "<i>3</i><i>4</i>"))
    ctx.case(("array-of-arrays",), True)
    try:
        got = c18.leaves(wsdlkit.client(c18.make_wsdl("x:Matrix")).service.f("x", __inject={"reply": doc.encode()}))
    except Exception as e:
        got = "%s: %s" % (type(e).__name__, e)
    if got != [1, 2, 3, 4]:
        ctx.fail("an array of arrays does not decode to its integers", {"stream": "array-of-arrays"}, got, [1, 2, 3, 4])
    # the same reply from a writer that never mentions the schema-instance namespace (no xsi:type anywhere: the array
    # types say it all)
    bare = ('<e:Envelope xmlns:e="%s" xmlns:xsd="%s" xmlns:soapenc="%s"><e:Body><m:fResponse xmlns:m="%s"><return '
            'soapenc:arrayType="xsd:int[][2]">%s</return></m:fResponse></e:Body></e:Envelope>'
            % (xmlread.ENV11, xmlread.XSD, xmlread.ENC, wsdlkit.TNS, row % "<i>1</i><i>2</i>" + row % "<i>3</i><i>4</i>"))
    ctx.case(("array-without-xsi",), True)
    try:
        got = c18.leaves(wsdlkit.client(c18.make_wsdl("x:Matrix")).service.f("x", __inject={"reply": bare.encode()}))
    except Exception as e:
        got = "%s: %s" % (type(e).__name__, e)
    if got != [1, 2, 3, 4]:
        ctx.fail("an array in a reply that never declares the schema-instance namespace does not decode to its integers",
                 {"stream": "array-without-xsi"}, got, [1, 2, 3, 4])
    parts = []
    for n, members in (("1", '<xsd:element name="n" type="xsd:int"/>'),
                       ("2", '<xsd:element name="s" type="xsd:string"/><xsd:element name="b" type="xsd:boolean"/>')):
        parts.append('<xsd:schema targetNamespace="urn:v%s" elementFormDefault="qualified"><xsd:element name="get">'
                     '<xsd:complexType><xsd:sequence/></xsd:complexType></xsd:element><xsd:element name="getResponse">'
                     '<xsd:complexType><xsd:sequence>%s</xsd:sequence></xsd:complexType></xsd:element></xsd:schema>'
                     % (n, members))
    w = ('<?xml version="1.0"?><wsdl:definitions targetNamespace="urn:w" xmlns:wsdl="http://schemas.xmlsoap.org/wsdl/" '
         'xmlns:w="urn:w" xmlns:v1="urn:v1" xmlns:v2="urn:v2" xmlns:soap="http://schemas.xmlsoap.org/wsdl/soap/" '
         'xmlns:xsd="http://www.w3.org/2001/XMLSchema"><wsdl:types>%s</wsdl:types>' % "".join(parts))
    for n in ("1", "2"):
        w += ('<wsdl:message name="i%s"><wsdl:part name="parameters" element="v%s:get"/></wsdl:message>'
              '<wsdl:message name="o%s"><wsdl:part name="parameters" element="v%s:getResponse"/></wsdl:message>' % (n, n, n, n))
    for n in ("1", "2"):
        w += ('<wsdl:portType name="PT%s"><wsdl:operation name="get"><wsdl:input message="w:i%s"/><wsdl:output '
              'message="w:o%s"/></wsdl:operation></wsdl:portType>' % (n, n, n))
    for n in ("1", "2"):
        w += ('<wsdl:binding name="B%s" type="w:PT%s"><soap:binding style="document" '
              'transport="http://schemas.xmlsoap.org/soap/http"/><wsdl:operation name="get"><soap:operation '
              'soapAction="g%s"/><wsdl:input><soap:body use="literal"/></wsdl:input><wsdl:output><soap:body '
              'use="literal"/></wsdl:output></wsdl:operation></wsdl:binding>' % (n, n, n))
    w += ('<wsdl:service name="S"><wsdl:port name="one" binding="w:B1"><soap:address location="http://x.invalid/1"/>'
          '</wsdl:port><wsdl:port name="two" binding="w:B2"><soap:address location="http://x.invalid/2"/></wsdl:port>'
          '</wsdl:service></wsdl:definitions>')
    replies = {"one": ('<e:Envelope xmlns:e="%s"><e:Body><getResponse xmlns="urn:v1"><n>42</n></getResponse></e:Body>'
                       '</e:Envelope>' % xmlread.ENV11).encode(),
               "two": ('<e:Envelope xmlns:e="%s"><e:Body><getResponse xmlns="urn:v2"><s>7</s><b>true</b></getResponse>'
                       '</e:Body></e:Envelope>' % xmlread.ENV11).encode()}
    want = {"one": ["int", 42], "two": [["s", "Text", "7"], ["b", "bool", True]]}
    for order in (("one", "two", "one"), ("two", "one", "two")):
        c = wsdlkit.client(w.encode())
        for port in order:
            meta = {"stream": "two-ports-one-operation-name", "order": list(order), "port": port}
            ctx.case(common.canon(meta), True)
            try:
                r = c.service[port].get(__inject={"reply": replies[port]})
                got = [[k, type(v).__name__, v if not isinstance(v, str) else str(v)] for k, v in r] \
                    if hasattr(r, "__keylist__") else [type(r).__name__, r]
            except Exception as e:
                got = "%s: %s" % (type(e).__name__, e)
            if got != want[port]:
                ctx.fail("a reply is not decoded by the output of its own port's operation", meta, got, want[port])


def nil_with_attributes(ctx):
    """A nilled element may still carry attributes (XSD allows it): they come back under underscore names, as they
    do for an element that is not nil."""
    schema = ('<xsd:element name="f"><xsd:complexType><xsd:sequence/></xsd:complexType></xsd:element>'
              '<xsd:complexType name="H"><xsd:sequence><xsd:element name="v" type="xsd:string" minOccurs="0"/>'
              '</xsd:sequence><xsd:attribute name="id" type="xsd:int"/><xsd:attribute name="reason" type="xsd:string"/>'
              '</xsd:complexType><xsd:element name="fResponse"><xsd:complexType><xsd:sequence>'
              '<xsd:element name="head" type="x:H" nillable="true"/><xsd:element name="tail" type="x:H" nillable="true"/>'
              '<xsd:element name="n" type="xsd:int" nillable="true"/>'
              '<xsd:element name="e1" type="x:H" nillable="true" minOccurs="0"/><xsd:element name="e2" type="xsd:anyType" '
              'nillable="true" minOccurs="0"/></xsd:sequence></xsd:complexType></xsd:element>')
    client = wsdlkit.client(wsdlkit.wsdl_doc(schema, "f", "fResponse"))
    for xp in ("xsi", "i", "q1"):
        # (e1, e2: declared nillable, present and empty without an xsi:nil - the nothing they hold is None too)
        data = ('<e:Envelope xmlns:e="%s" xmlns:%s="%s"><e:Body><fResponse xmlns="%s"><head %s:nil="true" id="5" '
                'reason="withheld"/><tail %s:nil="true"/><n %s:nil="1"/><e1/><e2></e2></fResponse></e:Body></e:Envelope>'
                % (xmlread.ENV11, xp, xmlread.XSI, wsdlkit.TNS, xp, xp, xp)).encode()
        meta = {"stream": "nil-with-attributes", "xsi_prefix": xp, "reply": data.decode()}
        ctx.case(common.canon(meta), True)
        try:
            r = client.service.f(__inject={"reply": data})
            got = {"head": K.normal(getattr(r, "head", "absent")), "tail": K.normal(getattr(r, "tail", "absent")),
                   "n": K.normal(getattr(r, "n", "absent")), "e1": K.normal(getattr(r, "e1", "absent")),
                   "e2": K.normal(getattr(r, "e2", "absent"))}
        except Exception as e:
            ctx.fail("decoding a schema-valid reply raised", meta, "%s: %s" % (type(e).__name__, e), "a value")
            continue
        exp = {"head": {"__class__": "H", "_id": 5, "_reason": "withheld"}, "tail": None, "n": None, "e2": None}
        got.pop("e1", None)        # (an empty element of a complex type is the empty object / '' of the assumptions)
        if not K.same_value(got, exp):
            ctx.fail("a nilled element is not decoded to None / its attributes are not kept under underscore names "
                     "(whatever prefix the schema-instance namespace has)", meta, repr(got), repr(exp))


def plain_href_not_nil_and_envelope_attributes(ctx):
    """(a) an attribute the schema declares under the name href is an attribute like any other (it is no reference
    when nothing carries that id); (b) xsi:nil="0" / "false" on a leaf says the leaf is NOT nil: it decodes to its
    value; (c) attributes of the SOAP envelope vocabulary on payload elements (encodingStyle - SOAP 1.1 and 1.2) are
    not data: a leaf that carries one is still the leaf's value."""
    schema = ('<xsd:element name="f"><xsd:complexType><xsd:sequence/></xsd:complexType></xsd:element>'
              '<xsd:complexType name="Link"><xsd:sequence><xsd:element name="t" type="xsd:string" minOccurs="0"/></xsd:sequence>'
              '<xsd:attribute name="href" type="xsd:anyURI"/><xsd:attribute name="rel" type="xsd:string"/></xsd:complexType>'
              '<xsd:element name="fResponse"><xsd:complexType><xsd:sequence><xsd:element name="link" type="x:Link"/>'
              '<xsd:element name="n" type="xsd:int" nillable="true"/><xsd:element name="m" type="xsd:int" nillable="true"/>'
              '<xsd:element name="s" type="xsd:string" nillable="true"/><xsd:element name="k" type="xsd:int"/>'
              '</xsd:sequence><xsd:attribute name="id" type="xsd:ID"/></xsd:complexType></xsd:element>')
    client = wsdlkit.client(wsdlkit.wsdl_doc(schema, "f", "fResponse"))
    for envns in (xmlread.ENV11, xmlread.ENV12):
        for href in ("http://example.org/a", "#top", "#id0"):
            for notnil in ("0", "false"):
                # (the reply element itself may carry an id: an attribute of its own, no independent element)
                data = ('<e:Envelope xmlns:e="%s" xmlns:xsi="%s"><e:Body><fResponse xmlns="%s" @@ID@@><link href="%s" rel="next"><t>x</t>'
                        '</link><n xsi:nil="%s">5</n><m xsi:nil="true"/><s xsi:nil="%s">text</s>'
                        '<k e:encodingStyle="http://schemas.xmlsoap.org/soap/encoding/">7</k></fResponse></e:Body></e:Envelope>'
                        % (envns, xmlread.XSI, wsdlkit.TNS, href, notnil, notnil)).replace(
                            " @@ID@@", ' id="resp-1"' if href == "#id0" or notnil == "false" else "").encode()
                meta = {"stream": "href-notnil-envelope-attributes", "envelope": envns, "href": href, "nil": notnil,
                        "reply": data.decode()}
                ctx.case(common.canon(meta), True)
                try:
                    r = client.service.f(__inject={"reply": data})
                    got = {"link": K.normal(getattr(r, "link", "absent")), "n": K.normal(getattr(r, "n", "absent")),
                           "m": K.normal(getattr(r, "m", "absent")), "s": K.normal(getattr(r, "s", "absent")),
                           "k": K.normal(getattr(r, "k", "absent"))}
                except Exception as e:
                    ctx.fail("decoding a schema-valid reply raised", meta, "%s: %s" % (type(e).__name__, e), "a value")
                    continue
                exp = {"link": {"__class__": "Link", "_href": href, "_rel": "next", "t": "x"}, "n": 5, "m": None, "s": "text",
                       "k": 7}
                if not K.same_value(got, exp):
                    ctx.fail("a reply decodes to something else than the value the document encodes (an attribute named "
                             "href / a leaf that says it is not nil / an envelope attribute on a payload leaf)", meta,
                             repr(got), repr(exp))


def attributes_named_like_python_words(ctx):
    """XML attributes called `class`, `def` (names Python reserves) come back under the documented substitutes `_cls`,
    `_dfn` - as members, with their typed values, next to ordinary attributes."""
    schema = ('<xsd:element name="f"><xsd:complexType><xsd:sequence/></xsd:complexType></xsd:element><xsd:element '
              'name="fResponse"><xsd:complexType><xsd:sequence><xsd:element name="t"><xsd:complexType><xsd:sequence>'
              '<xsd:element name="v" type="xsd:string"/></xsd:sequence><xsd:attribute name="class" type="xsd:string"/>'
              '<xsd:attribute name="def" type="xsd:int"/><xsd:attribute name="id" type="xsd:int"/></xsd:complexType>'
              '</xsd:element></xsd:sequence></xsd:complexType></xsd:element>')
    c = wsdlkit.client(wsdlkit.wsdl_doc(schema, "f", "fResponse"))
    data = ('<e:Envelope xmlns:e="%s"><e:Body><fResponse xmlns="%s"><t class="k" def="3" id="4"><v>x</v></t></fResponse>'
            '</e:Body></e:Envelope>' % (xmlread.ENV11, wsdlkit.TNS)).encode()
    meta = {"stream": "attributes-named-like-python-words", "reply": data.decode()}
    ctx.case(common.canon({"stream": meta["stream"]}), True)
    try:
        r = c.service.f(__inject={"reply": data})
        got = [[str(k), type(v).__name__, str(v)] for k, v in r]
    except Exception as e:
        got = "%s: %s" % (type(e).__name__, e)
    want = [["_cls", "Text", "k"], ["_dfn", "int", "3"], ["_id", "int", "4"], ["v", "Text", "x"]]
    if got != want:
        ctx.fail("a reply decodes to something else than the value the document encodes (attributes named like Python "
                 "words)", meta, got, want)


def typed_members_and_repeating_groups(ctx):
    """xsi:type on a member below the top level selects the type there too - for a member declared xsd:anyType,
    xsd:anySimpleType or a built-in the named type derives from; and the members of a repeating group (each declared
    once) come back as flat lists however often the group occurs."""
    import decimal
    schema = ('<xsd:element name="f"><xsd:complexType><xsd:sequence/></xsd:complexType></xsd:element>'
              '<xsd:complexType name="H"><xsd:sequence><xsd:element name="v" type="xsd:int"/></xsd:sequence></xsd:complexType>'
              '<xsd:complexType name="O"><xsd:sequence><xsd:element name="any1" type="xsd:anyType"/>'
              '<xsd:element name="any2" type="xsd:anyType"/><xsd:element name="d" type="xsd:decimal"/>'
              '<xsd:element name="s" type="xsd:anySimpleType"/><xsd:sequence maxOccurs="unbounded">'
              '<xsd:element name="k" type="xsd:string"/><xsd:element name="n" type="xsd:int"/></xsd:sequence>'
              '<xsd:choice minOccurs="0" maxOccurs="unbounded"><xsd:element name="ca" type="xsd:int"/>'
              '<xsd:element name="cb" type="xsd:string"/></xsd:choice></xsd:sequence></xsd:complexType>'
              '<xsd:element name="fResponse"><xsd:complexType><xsd:sequence><xsd:element name="o" type="x:O"/>'
              '</xsd:sequence></xsd:complexType></xsd:element>')
    client = wsdlkit.client(wsdlkit.wsdl_doc(schema, "f", "fResponse"))
    for reps in (2, 3, 4, 7):
        for xp in ("xsi", "i"):
            data = ('<e:Envelope xmlns:e="%s" xmlns:%s="%s" xmlns:xsd="http://www.w3.org/2001/XMLSchema"><e:Body>'
                    '<fResponse xmlns="%s" xmlns:x="%s"><o><any1 %s:type="xsd:int">5</any1><any2 %s:type="x:H"><v>9</v></any2>'
                    '<d %s:type="xsd:int">7</d><s %s:type="xsd:boolean">true</s>%s%s</o></fResponse></e:Body></e:Envelope>'
                    % (xmlread.ENV11, xp, xmlread.XSI, wsdlkit.TNS, wsdlkit.TNS, xp, xp, xp, xp,
                       "".join("<k>k%d</k><n>%d</n>" % (i, i) for i in range(reps)),
                       "".join("<ca>%d</ca>" % i for i in range(reps)))).encode()
            meta = {"stream": "typed-members-and-repeating-groups", "occurrences": reps, "xsi_prefix": xp, "reply": data.decode()}
            ctx.case(common.canon(meta), True)
            try:
                r = client.service.f(__inject={"reply": data})
                got = [[type(r.any1).__name__, r.any1], [type(r.any2).__name__, getattr(r.any2, "v", None)],
                       [type(r.d).__name__, r.d], [type(r.s).__name__, r.s], [str(x) for x in r.k], list(r.n), list(r.ca)]
            except Exception as e:
                ctx.fail("decoding a schema-valid reply raised", meta, "%s: %s" % (type(e).__name__, e), "a value")
                continue
            want = [["int", 5], ["H", 9], ["int", 7], ["bool", True], ["k%d" % i for i in range(reps)], list(range(reps)),
                    list(range(reps))]
            if got != want:
                ctx.fail("a member typed by xsi:type, or the members of a repeating group, decode to something else than "
                         "the value the document encodes", meta, repr(got), repr(want))


CTX_TYPES = ["int", "string", "boolean", "decimal", "long"]
CTX_LEX = ["0042", "1", "0", "7.50", "true", "-3"]


def ctx_value(t, lex):
    """What a leaf of XSD type t with lexical form lex decodes to (None: not a valid lexical form of t)."""
    import decimal
    if t == "string":
        return lex
    if t in ("int", "long"):
        return int(lex) if lex.lstrip("-").isdigit() else None
    if t == "boolean":
        return {"1": True, "true": True, "0": False, "false": False}.get(lex)
    if t == "decimal":
        try:
            return decimal.Decimal(lex)
        except Exception:
            return None
    return None


def same_name_contexts(ctx):
    """Separate stream: local elements (with inline anonymous types) and attributes that share a NAME but sit in
    different parents with different types - every value is decoded by the declaration of its own place."""
    rng = ctx.rng
    for _ in range(ctx.pick(40, 600)):
        groups = rng.sample(["orders", "customers", "parts", "notes"], rng.randint(2, 4))
        decl, body, expected = [], [], {"__class__": "R"}
        spec = []
        for g in groups:
            ta, tv = rng.choice(CTX_TYPES), rng.choice(CTX_TYPES)
            multi = rng.random() < 0.6
            decl.append('<xsd:element name="%s"><xsd:complexType><xsd:sequence><xsd:element name="item" %s>'
                        '<xsd:complexType><xsd:sequence><xsd:element name="v" type="xsd:%s"/></xsd:sequence>'
                        '<xsd:attribute name="id" type="xsd:%s"/></xsd:complexType></xsd:element></xsd:sequence>'
                        '<xsd:attribute name="id" type="xsd:%s"/></xsd:complexType></xsd:element>'
                        % (g, 'maxOccurs="unbounded"' if multi else "", tv, ta, tv))
            items, eitems = [], []
            for _i in range(rng.randint(1, 3) if multi else 1):
                la = rng.choice([l for l in CTX_LEX if ctx_value(ta, l) is not None])
                lv = rng.choice([l for l in CTX_LEX if ctx_value(tv, l) is not None])
                items.append('<item id="%s"><v>%s</v></item>' % (la, lv))
                eitems.append({"__class__": "item", "_id": ctx_value(ta, la), "v": ctx_value(tv, lv)})
            lg = rng.choice([l for l in CTX_LEX if ctx_value(tv, l) is not None])
            body.append('<%s id="%s">%s</%s>' % (g, lg, "".join(items), g))
            expected[g] = {"__class__": g, "_id": ctx_value(tv, lg), "item": eitems if multi else eitems[0]}
            spec.append([g, ta, tv, multi])
        schema = ('<xsd:element name="f"><xsd:complexType><xsd:sequence/></xsd:complexType></xsd:element>'
                  '<xsd:complexType name="R"><xsd:sequence>%s</xsd:sequence></xsd:complexType>'
                  '<xsd:element name="fResponse"><xsd:complexType><xsd:sequence><xsd:element name="r" type="x:R"/>'
                  '</xsd:sequence></xsd:complexType></xsd:element>' % "".join(decl))
        data = ('<e:Envelope xmlns:e="%s"><e:Body><fResponse xmlns="%s"><r>%s</r></fResponse></e:Body></e:Envelope>'
                % (xmlread.ENV11, wsdlkit.TNS, "".join(body))).encode()
        meta = {"stream": "same-name-contexts", "groups": spec, "reply": data.decode()}
        ctx.case(common.canon(meta), True)
        ctx.dist["same-name-contexts:groups=%d" % len(groups)] += 1
        try:
            client = wsdlkit.client(wsdlkit.wsdl_doc(schema, "f", "fResponse"))
            got = K.normal(client.service.f(__inject={"reply": data}))
        except Exception as e:
            ctx.fail("decoding a schema-valid reply raised", meta, "%s: %s" % (type(e).__name__, e), repr(expected)[:1500])
            continue
        if not K.same_value(got, expected):
            ctx.fail("a value is not decoded by the declaration of its own place (same-named elements / attributes "
                     "with different types)", meta, repr(got)[:1500], repr(expected)[:1500])


def widen(ctx):
    ctx.tier = "thorough"
    run(ctx)


def witness(ctx, k):
    """D32: <a xsi:nil/><a>1</a> decodes to [1]; D28 (fixed): unprefixed xsi:type under a default namespace."""
    if (k.get("witness") or {}).get("kind") == "unprefixed-xsi-type":
        schema = ('<xsd:complexType name="P"><xsd:sequence><xsd:element name="a" type="xsd:int"/></xsd:sequence>'
                  '</xsd:complexType><xsd:complexType name="Q"><xsd:complexContent><xsd:extension base="x:P">'
                  '<xsd:sequence><xsd:element name="b" type="xsd:int"/></xsd:sequence></xsd:extension>'
                  '</xsd:complexContent></xsd:complexType>'
                  '<xsd:element name="f"><xsd:complexType><xsd:sequence/></xsd:complexType></xsd:element>'
                  '<xsd:element name="fResponse"><xsd:complexType><xsd:sequence><xsd:element name="p" type="x:P"/>'
                  '</xsd:sequence></xsd:complexType></xsd:element>')
        client = wsdlkit.client(wsdlkit.wsdl_doc(schema, "f", "fResponse"))
        data = ('<e:Envelope xmlns:e="%s" xmlns:xsi="%s"><e:Body><m:fResponse xmlns:m="%s" xmlns="%s">'
                '<m:p xsi:type="Q"><m:a>1</m:a><m:b>2</m:b></m:p></m:fResponse></e:Body></e:Envelope>'
                % (xmlread.ENV11, xmlread.XSI, wsdlkit.TNS, wsdlkit.TNS)).encode()
        try:
            r = client.service.f(__inject={"reply": data})
            return not (type(r).__name__ == "Q" and r.b == 2)
        except Exception:
            return True
    if k.get("classifier") == "c02_simple_content":
        shape_ok, typed, values = simple_content_reply()
        return not typed
    if k.get("classifier") != "c02_nil_first_item":
        return None
    schema = NIL_SCHEMA
    client = wsdlkit.client(wsdlkit.wsdl_doc(schema, "f", "fResponse"))
    data = ('<e:Envelope xmlns:e="%s" xmlns:xsi="%s"><e:Body><fResponse xmlns="%s"><r><a xsi:nil="true"/><a>1</a><b>t</b>'
            '</r></fResponse></e:Body></e:Envelope>' % (xmlread.ENV11, xmlread.XSI, wsdlkit.TNS)).encode()
    r = client.service.f(__inject={"reply": data})
    return list(r.a) != [None, 1]


def replay(ctx, payload):
    f = payload.get("failure") or (payload.get("disagreement") or {})
    m = f.get("input") or {}
    if "iface" not in m:
        return {"fails": bool(f), "recorded": f}
    I = K.iface_of(m["iface"])
    docs = IF.render(K.rendering_of(m["rendering"], anonymous=False), I)
    client = K.make_client(docs, nosend=False)
    op = [o for o in I["ops"] if o["name"] == m["op"]][0]
    outvals = K.outvals_of(m["iface"], I, op, m["case"])
    nodes = IF.spec_reply_nodes(I, op, outvals)
    expected = IF.spec_result(I, op, outvals)
    out = {"fails": False, "expected": repr(expected)[:3000], "runs": []}
    for pname, pr in presentations(m["iface"], op, m["case"], 6):
        if m.get("presentation") not in (None, pname):
            continue
        data = IF.write_envelope(pr, nodes)
        try:
            got = K.decode_reply(client, op, data)
            ok = K.same_value(got, expected)
        except Exception as e:
            got, ok = "%s: %s" % (type(e).__name__, e), False
        out["runs"].append({"presentation": pname, "ok": ok, "got": repr(got)[:3000], "reply": data.decode()})
        out["fails"] = out["fails"] or not ok
    return out
