"""C06 - XSD built-in values convert exactly and stay lexically valid."""
import datetime
import decimal
import itertools
import re
from fractions import Fraction

from harness import common, wsdlkit, xmlread

ID = "C06"
LEAN_MODULES = ["SudsModel.Props.C06"]
RULE = ("Decimals: all sign x <=4 significant digits x exponent -8..8 (thorough; 3 digits quick) + random up to 60 "
        "digits; booleans: full tables; ints to 10^40; floats incl. extremes; date/time/dateTime: boundary grid "
        "(years 1,4,100,400,1900,2000,9999; month ends; leap days; 23:59:59.999999; fractions of length 1..12 around "
        "...4999/...5000; offsets -23:59..+23:59) x lexical variants + malformed stream; non-trivial = not the "
        "canonical mid-range value; distinct = distinct input strings/values"
        ' ; plus streams: named simple types derived by restriction, attribute values of every type (falsy ones included)'
        " ; ISO 8601 forms outside XSD (basic, week, ordinal, reduced) must raise; an accepted 24:00:00 must be the next day's start; attributes typed by the element they stand on (same-named elements in one reply)"
        ' ; strings with blanks at their ends'
        ' ; restrictions of restrictions'
        ' ; items of encoded arrays'
        ' ; strings with tabs and line feeds'
        ' ; decimals without integer digits; dateTime-shaped text for a date')
ASSUMPTIONS = ["Python int()/str()/float()/repr()/Decimal()/datetime are runtime (trusted, covered by correspondence)"]
PARTIAL = [
    {"theorem": "float round trip", "missing": "Python float repr/parse is runtime; covered by correspondence only"},
    {"theorem": "datetime_roundtrip beyond isoformat texts", "missing": "date_roundtrip / time_roundtrip / "
     "datetime_roundtrip prove parse(isoformat(v)) = v for every valid date, time of day and offset below 24 h; "
     "that Python's isoformat() is the modelled isoDate/isoTime/isoDateTime is the correspondence; other lexical "
     "forms of the same value (no padding, fraction digits beyond six) are covered by the per-rule theorems"},
]
TRUSTED = ["Python decimal/datetime/fractions as value oracles"]

UTC_NAMES = ("UtcTimezone",)


def tz_canon(tz, dt=None):
    if tz is None:
        return None
    off = tz.utcoffset(dt)
    mins = int(off.total_seconds() // 60)
    if type(tz).__name__ in UTC_NAMES:
        return "utc"
    return mins


def canon_date(d):
    return [d.year, d.month, d.day]


def canon_time(t):
    return [t.hour, t.minute, t.second, t.microsecond]


def impl_parse(kind, s):
    from suds.sax import date as sd
    try:
        if kind == "date":
            v = sd.Date(s).value
            return {"date": canon_date(v)}
        if kind == "time":
            v = sd.Time(s).value
            return {"time": canon_time(v), "tz": tz_canon(v.tzinfo)}
        v = sd.DateTime(s).value
        return {"date": canon_date(v), "time": canon_time(v), "tz": tz_canon(v.tzinfo, v)}
    except ValueError as e:
        msg = str(e)
        return {"err": "format" if "invalid format" in msg else "value"}
    except OverflowError:
        return {"err": "overflow"}


# ---------------------------------------------------------------- independent XSD oracle

RE_D = r"(?P<y>[0-9]+)-(?P<mo>[0-9]{1,2})-(?P<d>[0-9]{1,2})"
RE_T = r"(?P<h>[0-9]{1,2}):(?P<mi>[0-9]{1,2}):(?P<s>[0-9]{1,2})(?:\.(?P<f>[0-9]+))?"
RE_Z = r"(?P<z>[Zz]|[-+][0-9]{1,2}(?::[0-9]{1,2})?)?"
ORACLE = {"date": re.compile("^" + RE_D + RE_Z + r"\n?\Z"),
          "time": re.compile("^" + RE_T + RE_Z + r"\n?\Z"),
          "dateTime": re.compile("^" + RE_D + "[T ]" + RE_T + RE_Z + r"\n?\Z")}


def oracle_parse(kind, s):
    """What XSD (with the leniencies the property names) says the text denotes, or 'invalid'."""
    if not s.isascii():
        return "invalid"
    m = ORACLE[kind].match(s)
    if not m:
        return "invalid"
    g = m.groupdict()
    tz = None
    if g.get("z"):
        z = g["z"]
        if z in "Zz":
            tz = 0
        else:
            parts = z[1:].split(":")
            hh, mm = int(parts[0]), int(parts[1]) if len(parts) > 1 else 0
            if hh >= 24 or mm >= 60:
                return "invalid"
            tz = (hh * 60 + mm) * (-1 if z[0] == "-" else 1)
    try:
        if kind != "time":
            d = datetime.date(int(g["y"]), int(g["mo"]), int(g["d"]))
        if kind != "date":
            h, mi, sec = int(g["h"]), int(g["mi"]), int(g["s"])
            if mi >= 60 or sec >= 60:
                return "invalid"
            if h == 24 and mi == 0 and sec == 0 and not (g["f"] or "").strip("0"):
                return "t24"       # valid XSD 1.0 lexical; Python cannot hold it without normalising
            if h >= 24:
                return "invalid"
            frac = Fraction(int(g["f"]), 10 ** len(g["f"])) if g["f"] else Fraction(0)
            us = int(frac * 1000000 + Fraction(1, 2))          # round half up
    except ValueError:
        return "invalid"
    if kind == "date":
        return {"date": canon_date(d)}
    if kind == "time":
        base = datetime.datetime(2000, 1, 1, h, mi, sec) + datetime.timedelta(microseconds=us)
        return {"time": canon_time(base.time()), "offset": tz}
    try:
        base = datetime.datetime(d.year, d.month, d.day, h, mi, sec) + datetime.timedelta(microseconds=us)
    except OverflowError:
        return "unrepresentable"
    return {"date": canon_date(base.date()), "time": canon_time(base.time()), "offset": tz}


def offset_of(tzc):
    return None if tzc is None else (0 if tzc == "utc" else tzc)


def check_parse(ctx, kind, s, model):
    impl = impl_parse(kind, s)
    inp = {"kind": kind, "s": s}
    if model is not None:
        ctx.compare("parse." + kind, inp, impl, model)
    exp = oracle_parse(kind, s)
    ctx.dist["parse:%s:%s" % (kind, exp if isinstance(exp, str) else "value")] += 1
    if exp == "invalid":
        if "err" not in impl or impl["err"] == "overflow":
            ctx.fail("text that is not a valid %s produced a value instead of ValueError" % kind, inp, impl, "ValueError")
    elif exp == "t24":
        if "err" not in impl:
            # accepted: then it denotes the first instant of the following day (00:00:00 for a time)
            m = ORACLE[kind].match(s)
            want = oracle_parse(kind, s[:m.start("h")] + "00" + s[m.end("h"):])
            got = dict(impl)
            if "tz" in got:
                got["offset"] = offset_of(got.pop("tz"))
            if kind == "dateTime" and isinstance(want, dict):
                try:
                    nd = datetime.date(*want["date"]) + datetime.timedelta(days=1)
                    want = dict(want, date=canon_date(nd))
                except (OverflowError, ValueError):
                    want = None
            if want is None or got != want:
                ctx.fail("24:00:00 decoded to a value that is not the start of the following day", inp, impl, want)
        else:
            ctx.fail("valid lexical form rejected", inp, impl, "24:00:00 (end of day)", boundary="t24")
    elif exp == "unrepresentable":
        if "err" not in impl:
            ctx.fail("unrepresentable value produced", inp, impl, "error")
    else:
        got = dict(impl)
        if "tz" in got:
            got["offset"] = offset_of(got.pop("tz"))
        if got != exp:
            ctx.fail("decoded value differs from the XSD value", inp, impl, exp)


def kf_t24(f, k):
    return f.get("boundary") == "t24" and re.search(r"(^|[T ])24:0?0:0?0(\.0+)?", f["input"]["s"]) is not None \
        and f["observed"] == {"err": "value"}


def kf_date_tz(f, k):
    """D20: a *date* whose only defect is a timezone hour >= 24; the date part itself was decoded right."""
    inp = f["input"]
    if inp.get("kind") != "date" or "date" not in (f["observed"] or {}):
        return False
    m = re.match(r"^(\d+-\d{1,2}-\d{1,2})[-+](\d{1,2})(?::[0-5]?\d)?\n?$", inp["s"])
    if not m or int(m.group(2)) < 24:
        return False
    return oracle_parse("date", m.group(1)) == f["observed"]


def kf_restricted(f, k):
    """D46: a value of a named simple type derived by restriction from a builtin is passed through untranslated:
    sent as str(value), received as the text."""
    if (f.get("input") or {}).get("stream") != "restricted-simple-types":
        return False
    return f.get("untranslated") is True


CLASSIFIERS = {"c06_hour_24": kf_t24, "c06_date_tz_ignored": kf_date_tz, "c06_restricted_simple_type": kf_restricted}


def restricted_simple_types(ctx):
    """Named simple types derived by restriction from a builtin carry the builtin's value space: a Python value is
    sent in the builtin's lexical form and a reply text comes back as the builtin's Python type."""
    import datetime
    import decimal
    cases = [("boolean", True, "true", True), ("boolean", False, "false", False), ("int", 5, "5", 5),
             ("dateTime", datetime.datetime(2001, 2, 3, 4, 5, 6), "2001-02-03T04:05:06", datetime.datetime(2001, 2, 3, 4, 5, 6)),
             ("date", datetime.date(2001, 2, 3), "2001-02-03", datetime.date(2001, 2, 3)),
             ("time", datetime.time(4, 5, 6), "04:05:06", datetime.time(4, 5, 6)),
             ("decimal", decimal.Decimal("1.50"), "1.50", decimal.Decimal("1.50")),
             ("double", float("inf"), "INF", float("inf")), ("string", "s", "s", "s")]
    # (every second one through an intermediate named restriction: R -> B -> builtin)
    decl = "".join('<xsd:simpleType name="R%d"><xsd:restriction base="xsd:%s"/></xsd:simpleType>' % (i, c[0]) if i % 2 == 0
                   else '<xsd:simpleType name="B%d"><xsd:restriction base="xsd:%s"/></xsd:simpleType><xsd:simpleType '
                        'name="R%d"><xsd:restriction base="x:B%d"/></xsd:simpleType>' % (i, c[0], i, i)
                   for i, c in enumerate(cases))
    members = "".join('<xsd:element name="m%d" type="x:R%d" minOccurs="0"/>' % (i, i) for i in range(len(cases)))
    schema = ('%s<xsd:element name="f"><xsd:complexType><xsd:sequence>%s</xsd:sequence></xsd:complexType></xsd:element>'
              '<xsd:element name="fResponse"><xsd:complexType><xsd:sequence>%s</xsd:sequence></xsd:complexType>'
              '</xsd:element>' % (decl, members, members))
    w = wsdlkit.wsdl_doc(schema, "f", "fResponse")
    req, rep = wsdlkit.client(w, nosend=True), wsdlkit.client(w)
    for i, (base, value, lex, back) in enumerate(cases):
        meta = {"stream": "restricted-simple-types", "base": base, "value": repr(value)}
        ctx.case(common.canon(meta), True)
        name = "m%d" % i
        env = wsdlkit.envelope_bytes(req.service.f(**{name: value}))
        node = xmlread.find1(xmlread.find1(xmlread.find1(xmlread.parse(env), "Body"), "f"), name)
        sent = None if node is None else node["text"]
        same = sent == lex
        if base == "decimal" and sent is not None and re.match(r"^-?[0-9]+(\.[0-9]+)?$", sent):
            same = decimal.Decimal(sent) == value        # any digits-only form of the same number
        if not same:
            ctx.fail("a value of a restricted simple type is not sent in the base type's lexical form", meta, sent, lex,
                     untranslated=(sent == str(value)))
        doc = ('<e:Envelope xmlns:e="%s"><e:Body><fResponse xmlns="%s"><%s>%s</%s></fResponse></e:Body></e:Envelope>'
               % (xmlread.ENV11, wsdlkit.TNS, name, lex, name)).encode()
        got = getattr(rep.service.f(__inject={"reply": doc}), name, None)
        ok = (isinstance(got, str) and str(got) == back) if base == "string" else (type(got) is type(back) and got == back)
        if not ok:
            ctx.fail("a reply text of a restricted simple type is not decoded to the base type's value", meta, repr(got),
                     repr(back), untranslated=(isinstance(got, str) and str(got) == lex))


# ---------------------------------------------------------------- generators

YEARS = [1, 4, 99, 100, 400, 1900, 1999, 2000, 2023, 2024, 9999]


def grid_dates():
    for y in YEARS:
        for m in (1, 2, 3, 4, 6, 9, 11, 12):
            for d in (1, 28, 29, 30, 31):
                yield y, m, d


def lex_variants(rng, y, m, d, h, mi, s, frac, zone):
    ys = [("%04d" % y), str(y), "0%04d" % y]
    out = []
    for _ in range(3):
        yy = rng.choice(ys)
        mm = rng.choice(["%02d" % m, str(m)])
        dd = rng.choice(["%02d" % d, str(d)])
        hh = rng.choice(["%02d" % h, str(h)])
        mimi = rng.choice(["%02d" % mi, str(mi)])
        ss = rng.choice(["%02d" % s, str(s)])
        out.append((yy + "-" + mm + "-" + dd, hh + ":" + mimi + ":" + ss + (("." + frac) if frac else ""), zone))
    return out


ZONES = ["", "Z", "z", "+00:00", "-00:00", "+0", "+01:00", "-01:30", "+5:3", "+05:30", "-23:59", "+23:59", "+23",
         "+24:00", "-24", "+99:00", "+12:60", "+1:5"]
FRACS = ["", "0", "5", "000000", "000001", "999999", "9999994", "9999995", "9999999", "1234564999", "1234565000",
         "499999", "4999995", "0000005", "0000004", "00000049999", "000000500000", "123", "999999999999",
         "1234564" + "9" * 20, "9999994" + "9" * 30, "0000004" + "9" * 17, "0000005" + "0" * 40, "4" * 7 + "9" * 60]


def gen_parse_cases(ctx):
    rng = ctx.rng
    cases = []
    times = [(0, 0, 0), (23, 59, 59), (12, 30, 5), (1, 2, 3), (23, 59, 60), (24, 0, 0), (25, 0, 0), (0, 60, 0),
             (9, 5, 7)]
    dates = list(grid_dates())
    # boundary grid: every date x a few times/fractions/zones
    for (y, m, d) in dates:
        cases.append(("date", "%04d-%02d-%02d" % (y, m, d)))
        for z in rng.sample(ZONES, 2):
            cases.append(("date", "%d-%d-%d%s" % (y, m, d, z)))
    for (h, mi, s) in times:
        for f in FRACS:
            for z in ZONES:
                cases.append(("time", "%02d:%02d:%02d%s%s" % (h, mi, s, "." + f if f else "", z)))
    n_dt = ctx.pick(6000, 120000)
    for _ in range(n_dt):
        y, m, d = rng.choice(dates)
        h, mi, s = rng.choice(times[:4] + times[:3])
        f = rng.choice(FRACS)
        z = rng.choice(ZONES)
        dd, tt, zz = rng.choice(lex_variants(rng, y, m, d, h, mi, s, f, z))
        cases.append(("dateTime", dd + rng.choice("TT ") + tt + zz))
        if rng.random() < 0.2:
            cases.append(("time", tt + zz))
        if rng.random() < 0.2:
            cases.append(("date", dd + zz))
    # the carry chain
    for y, m, d in [(1999, 12, 31), (2000, 2, 28), (2000, 2, 29), (1900, 2, 28), (9999, 12, 31), (2023, 4, 30), (1, 1, 1)]:
        for f in ("9999995", "9999994", "999999", "99999949", "99999950"):
            for z in ("", "Z", "+05:30"):
                cases.append(("dateTime", "%04d-%02d-%02dT23:59:59.%s%s" % (y, m, d, f, z)))
    for f in ("9999995", "9999994"):
        cases.append(("time", "23:59:59." + f))
        cases.append(("time", "23:59:59.%s-01:00" % f))
    # random values
    for _ in range(ctx.pick(3000, 60000)):
        y = rng.randint(1, 9999)
        m = rng.randint(1, 12)
        d = rng.randint(1, 31)
        h, mi, s = rng.randint(0, 23), rng.randint(0, 59), rng.randint(0, 59)
        f = "".join(rng.choice("0123456789") for _ in range(rng.randint(0, 12)))
        z = rng.choice(["", "Z", "%s%02d:%02d" % (rng.choice("+-"), rng.randint(0, 23), rng.randint(0, 59))])
        cases.append(("dateTime", "%04d-%02d-%02dT%02d:%02d:%02d%s%s" % (y, m, d, h, mi, s, "." + f if f else "", z)))
    # malformed stream: mutate valid strings
    base = [c for c in cases if rng.random() < 0.15]
    junk = list("0123456789-:+.TZz \n") + ["١", "٢", "x", "--", "::", "", "/", "٠", "０"]
    for kind, s in base[:ctx.pick(4000, 60000)]:
        t = list(s)
        for _ in range(rng.randint(1, 2)):
            op = rng.random()
            pos = rng.randint(0, len(t))
            if op < 0.4 and t:
                del t[min(pos, len(t) - 1)]
            elif op < 0.8:
                t.insert(pos, rng.choice(junk))
            elif t:
                t[min(pos, len(t) - 1)] = rng.choice(junk)
        cases.append((kind, "".join(t)))
    for s in ["", " ", "2000-01-01\n", "2000-01-01\n\n", "2000-01-01 ", " 2000-01-01", "2000-01-01T", "T10:00:00",
              "２０００-01-01", "2000-01-0１", "10:00:00.", "10:00:00.5.5", "2000-01-01T10:00:00+", "2000-01-01TZ",
              "-2000-01-01", "+2000-01-01", "2000-01-01T24:00:00", "24:00:00", "24:00:00.0", "24:00:01"]:
        for kind in ("date", "time", "dateTime"):
            cases.append((kind, s))
    # ISO 8601 forms that are not XSD lexical forms (basic format, week and ordinal dates, reduced precision,
    # comma fractions, basic zones): nothing of the kind denotes a value
    for _ in range(ctx.pick(60, 600)):
        y, m, d = rng.choice(dates)
        h, mi, sec = rng.choice(times[:4])
        try:
            iso = datetime.date(y, m, d).isocalendar()
            ordinal = datetime.date(y, m, d).timetuple().tm_yday
        except ValueError:
            continue
        dforms = ["%04d%02d%02d" % (y, m, d), "%04d-W%02d-%d" % (iso[0], iso[1], iso[2]),
                  "%04dW%02d%d" % (iso[0], iso[1], iso[2]), "%04d-%03d" % (y, ordinal), "%04d-%02d" % (y, m),
                  "--%02d-%02d" % (m, d), "%04d" % y]
        tforms = ["%02d%02d%02d" % (h, mi, sec), "T%02d:%02d:%02d" % (h, mi, sec), "%02d:%02d" % (h, mi), "%02d" % h,
                  "%02d:%02d:%02d,5" % (h, mi, sec), "%02d:%02d:%02d+0530" % (h, mi, sec),
                  "%02d%02d%02d.5" % (h, mi, sec)]
        good_d, good_t = "%04d-%02d-%02d" % (y, m, d), "%02d:%02d:%02d" % (h, mi, sec)
        for x in dforms:
            cases.append(("date", x))
            cases.append(("dateTime", x + "T" + good_t))
            cases.append(("dateTime", x))
        for x in tforms:
            cases.append(("time", x))
            cases.append(("dateTime", good_d + "T" + x))
        cases.append(("dateTime", dforms[0] + "T" + tforms[0]))
        cases.append(("dateTime", good_d + "t" + good_t))
    return cases


def dec_cases(ctx):
    rng = ctx.rng
    nd = ctx.pick(3, 4)
    for neg in (0, 1):
        for k in range(1, nd + 1):
            for ds in itertools.product(range(10), repeat=k):
                if ds[0] == 0 and k > 1:
                    continue
                for e in range(-8, 9):
                    yield decimal.Decimal((neg, ds, e))
    for _ in range(ctx.pick(2000, 40000)):
        k = rng.randint(1, 60)
        ds = [rng.randint(1, 9)] + [rng.choice((0, 0, rng.randint(0, 9))) for _ in range(k - 1)]
        yield decimal.Decimal((rng.randint(0, 1), tuple(ds), rng.randint(-70, 70)))
    for s in ["0", "-0", "0.0", "0E+5", "0E-5", "1E+2", "1.0", "100", "0.001", "123.4500", "-0.0"]:
        yield decimal.Decimal(s)


XSD_DECIMAL = re.compile(r"^[-+]?([0-9]+(\.[0-9]*)?|\.[0-9]+)$")
XSD_FLOAT = re.compile(r"^([-+]?([0-9]+(\.[0-9]*)?|\.[0-9]+)([eE][-+]?[0-9]+)?|-?INF|NaN)$")
XSD_INT = re.compile(r"^[-+]?[0-9]+$")

SCHEMA = "".join('<xsd:element name="%s" type="xsd:%s"/>' % (n, t) for n, t in [
    ("b", "boolean"), ("i", "integer"), ("l", "long"), ("fl", "double"), ("de", "decimal"), ("da", "date"),
    ("ti", "time"), ("dt", "dateTime"), ("st", "string")])
SCHEMA = ('<xsd:element name="f"><xsd:complexType><xsd:sequence>%s</xsd:sequence></xsd:complexType></xsd:element>'
          '<xsd:element name="fResponse"><xsd:complexType><xsd:sequence>%s</xsd:sequence></xsd:complexType>'
          '</xsd:element>' % (SCHEMA.replace("/>", ' minOccurs="0"/>'), SCHEMA.replace("/>", ' minOccurs="0"/>')))


class Wire:
    def __init__(self):
        w = wsdlkit.wsdl_doc(SCHEMA, "f", "fResponse")
        self.req = wsdlkit.client(w, nosend=True)
        self.rep = wsdlkit.client(w)

    def send(self, name, value):
        env = wsdlkit.envelope_bytes(self.req.service.f(**{name: value}))
        root = xmlread.parse(env)
        f = xmlread.find1(xmlread.find1(root, "Body"), "f")
        n = xmlread.find1(f, name)
        return None if n is None else n["text"]

    def recv(self, name, text):
        doc = ('<e:Envelope xmlns:e="%s"><e:Body><fResponse xmlns="%s"><%s>%s</%s></fResponse></e:Body>'
               '</e:Envelope>' % (xmlread.ENV11, wsdlkit.TNS, name, text, name)).encode("utf-8")
        res = self.rep.service.f(__inject={"reply": doc})
        return getattr(res, name, None)


def run(ctx):
    from suds.xsd import sxbuiltin as sx
    rng = ctx.rng
    wire = Wire()
    # ---- booleans: full tables both ways
    reqs, impls, inps = [], [], []
    for s in ["1", "true", "0", "false", "True", "TRUE", "", " true", "2", "yes", "01"]:
        impls.append(sx.XBoolean.translate(s))
        reqs.append({"op": "xsd.boolToPython", "s": s})
        inps.append({"bool_text": s})
        if s in ("1", "true") and impls[-1] is not True or s in ("0", "false") and impls[-1] is not False:
            ctx.fail("boolean lexical form decoded wrongly", inps[-1], impls[-1], s in ("1", "true"))
        if s not in ("1", "true", "0", "false") and impls[-1] is not None:
            ctx.fail("invalid boolean text decoded to a value", inps[-1], impls[-1], None)
    for b in (True, False):
        impls.append(sx.XBoolean.translate(b, False))
        reqs.append({"op": "xsd.boolToXml", "b": b})
        inps.append({"bool": b})
        if impls[-1] not in (("true", "1") if b else ("false", "0")):
            ctx.fail("boolean sent in a non-XSD lexical form", inps[-1], impls[-1], "true/false/1/0")
        t = wire.send("b", b)
        if t not in (("true", "1") if b else ("false", "0")):
            ctx.fail("boolean leaf text invalid", {"bool": b}, t, "true/false")
        for lex in (("true", "1") if b else ("false", "0")):
            v = wire.recv("b", lex)
            if v is not b:
                ctx.fail("boolean reply decoded wrongly", {"text": lex}, repr(v), b)
    for inp, i, m in zip(inps, impls, ctx.driver.ask(reqs)):
        ctx.compare("boolean", inp, i, m)
        ctx.case(("bool", common.canon(inp)), True)
    # ---- decimals
    reqs, impls, vals = [], [], []
    for d in dec_cases(ctx):
        out = sx.XDecimal.translate(d, False)
        neg, digits, exp = d.canonical().as_tuple() if hasattr(d, "canonical") else d.as_tuple()
        reqs.append({"op": "xsd.decimal", "neg": bool(neg), "digits": list(digits), "exp": exp})
        impls.append(out)
        vals.append(d)
        if not XSD_DECIMAL.match(out) or "E" in out.upper():
            ctx.fail("decimal text is not a valid xsd:decimal lexical form", {"decimal": str(d)}, out, "no exponent")
        elif decimal.Decimal(out) != d:
            ctx.fail("decimal text denotes a different value", {"decimal": str(d)}, out, str(d))
        back = sx.XDecimal.translate(out)
        if back != d:
            ctx.fail("decimal does not read back equal", {"decimal": str(d)}, str(back), str(d))
        ctx.case(("dec", str(d)), d.as_tuple().exponent != 0)
    for d, i, m in zip(vals, impls, ctx.driver.ask(reqs)):
        ctx.compare("decimal", {"decimal": str(d)}, i, m)
    for d in rng.sample(vals, min(len(vals), ctx.pick(300, 3000))):
        t = wire.send("de", d)
        if t is None or decimal.Decimal(t) != d or not XSD_DECIMAL.match(t):
            ctx.fail("decimal leaf text wrong", {"decimal": str(d)}, t, str(d))
        v = wire.recv("de", t)
        if v != d or not isinstance(v, decimal.Decimal):
            ctx.fail("decimal reply decoded wrongly", {"text": t}, repr(v), str(d))
    for lex in ["+1.50", "001.500", "-.5", "5.", "+0", "-0.0", "000", "12345678901234567890.0123456789",
                ".0", "-.000", "+.00", "0.", "10.", "100.00", ".50", "-0.", "+.0"]:
        v = wire.recv("de", lex)
        if not isinstance(v, decimal.Decimal) or v != decimal.Decimal(lex):
            ctx.fail("decimal lexical variant decoded wrongly", {"text": lex}, repr(v), lex)
        ctx.case(("declex", lex), True)
    # ---- ints
    for _ in range(ctx.pick(300, 5000)):
        n = rng.choice([0, 1, -1, 2 ** 31 - 1, -2 ** 31, 2 ** 63, 10 ** 40, -10 ** 40, rng.randint(-10 ** 40, 10 ** 40),
                        rng.randint(-1000, 1000)])
        for name in ("i", "l"):
            t = wire.send(name, n)
            if t is None or not XSD_INT.match(t) or int(t) != n:
                ctx.fail("integer leaf text wrong", {"int": n}, t, str(n))
            for lex in (str(n), ("+%d" % n) if n >= 0 else str(n), ("%s000%d" % ("-" if n < 0 else "", abs(n)))):
                v = wire.recv(name, lex)
                if v != n or isinstance(v, bool) or not isinstance(v, int):
                    ctx.fail("integer reply decoded wrongly", {"text": lex}, repr(v), n)
        ctx.case(("int", n), abs(n) > 9)
    # ---- floats
    floats = [0.0, -0.0, 1.0, -1.5, 0.1, 1e16, 1e-7, 1.7976931348623157e308, 5e-324, 2.2250738585072014e-308,
              123456789.123456789, float("inf"), float("-inf"), float("nan")]
    floats += [rng.uniform(-1e6, 1e6) for _ in range(ctx.pick(200, 3000))]
    floats += [rng.random() * 10 ** rng.randint(-300, 300) for _ in range(ctx.pick(200, 3000))]
    for x in floats:
        t = wire.send("fl", x)
        okv = t is not None and XSD_FLOAT.match(t) is not None
        if not okv:
            ctx.fail("float text is not a valid xsd:double lexical form", {"float": repr(x)}, t, "XSD lexical")
        else:
            y = float(t)
            if not (y == x or (x != x and y != y)):
                ctx.fail("float text denotes a different value", {"float": repr(x)}, t, repr(x))
            v = wire.recv("fl", t)
            if not isinstance(v, float) or not (v == x or (x != x and v != v)):
                ctx.fail("float does not read back equal", {"text": t}, repr(v), repr(x))
        ctx.case(("float", repr(x)), True)
    for lex, val in [("INF", float("inf")), ("-INF", float("-inf")), ("1E3", 1000.0), ("+1.5e-3", 0.0015), ("-0", -0.0)]:
        v = wire.recv("fl", lex)
        if not isinstance(v, float) or v != val:
            ctx.fail("float lexical variant decoded wrongly", {"text": lex}, repr(v), val)
    v = wire.recv("fl", "NaN")
    if not isinstance(v, float) or v == v:
        ctx.fail("NaN decoded wrongly", {"text": "NaN"}, repr(v), "nan")
    # ---- strings: the value is the text, blanks at either end included (xsd:string does not collapse white space)
    for sv in ["s", " lead", "trail ", " both ", "a  b", "0", " 7 ", "true ", "a\tb", "l1\nl2", "\tlead-tab", "end\n"]:
        ctx.case(("string", sv), sv != "s")
        t = wire.send("st", sv)
        if t != sv:
            ctx.fail("string leaf text is not the string", {"string": sv}, t, sv)
        v = wire.recv("st", sv)
        if not isinstance(v, str) or str(v) != sv:
            ctx.fail("string does not read back equal", {"text": sv}, repr(v), repr(sv))
    # ---- date / time / dateTime parsing: model correspondence + XSD oracle
    cases = gen_parse_cases(ctx)
    opname = {"date": "xsd.parseDate", "time": "xsd.parseTime", "dateTime": "xsd.parseDateTime"}
    answers = ctx.driver.ask([{"op": opname[k], "s": s} for k, s in cases])
    for (k, s), m in zip(cases, answers):
        check_parse(ctx, k, s, m)
        ctx.case((k, s), True)
    # ---- python values -> text (isoformat), validity, read back
    vals = []
    for (y, m, d) in grid_dates():
        try:
            datetime.date(y, m, d)
        except ValueError:
            continue
        for (h, mi, s, us) in [(0, 0, 0, 0), (23, 59, 59, 999999), (12, 0, 0, 1), (1, 2, 3, 400000)]:
            for off in (None, "utc", 0, 90, -330, 1439, -1439):
                vals.append((y, m, d, h, mi, s, us, off))
    rng.shuffle(vals)
    vals = vals[:ctx.pick(1500, 20000)]
    from suds.sax import date as sd
    reqs, impls, inps = [], [], []
    for (y, m, d, h, mi, s, us, off) in vals:
        tz = None if off is None else (sd.UtcTimezone() if off == "utc" else
                                       sd.FixedOffsetTimezone(datetime.timedelta(minutes=off)))
        tzj = None if off is None else ("utc" if off == "utc" or off == 0 else off)
        dtv = datetime.datetime(y, m, d, h, mi, s, us, tzinfo=tz)
        tv = datetime.time(h, mi, s, us, tzinfo=tz)
        dv = datetime.date(y, m, d)
        for kind, val, req in (
                ("dateTime", dtv, {"op": "xsd.isoDateTime", "date": [y, m, d], "time": [h, mi, s, us], "tz": tzj}),
                ("time", tv, {"op": "xsd.isoTime", "time": [h, mi, s, us], "tz": tzj}),
                ("date", dv, {"op": "xsd.isoDate", "date": [y, m, d]})):
            cls = {"dateTime": sx.XDateTime, "time": sx.XTime, "date": sx.XDate}[kind]
            text = str(cls.translate(val, False))
            reqs.append(req)
            impls.append(text)
            inps.append({"kind": kind, "value": val.isoformat()})
            # valid lexical + same value + same offset when read back
            o = oracle_parse(kind, text)
            back = cls.translate(text)
            strict = {"date": r"^\d{4,}-\d\d-\d\d$", "time": r"^\d\d:\d\d:\d\d(\.\d+)?(Z|[-+]\d\d:\d\d)?$",
                      "dateTime": r"^\d{4,}-\d\d-\d\dT\d\d:\d\d:\d\d(\.\d+)?(Z|[-+]\d\d:\d\d)?$"}[kind]
            if not re.match(strict, text) or not isinstance(o, dict):
                ctx.fail("text sent for a %s is not a valid XSD lexical form" % kind, inps[-1], text, "XSD lexical")
            elif back != val or (kind != "date" and
                                 (back.utcoffset() if kind == "dateTime" else
                                  (back.tzinfo.utcoffset(None) if back.tzinfo else None)) !=
                                 (val.utcoffset() if kind == "dateTime" else
                                  (val.tzinfo.utcoffset(None) if val.tzinfo else None))):
                ctx.fail("%s does not read back equal with the same offset" % kind, inps[-1], repr(back), repr(val))
            ctx.case(("iso", kind, text), True)
    for inp, i, m in zip(inps, impls, ctx.driver.ask(reqs)):
        ctx.compare("isoformat", inp, i, m)
    # through the wire
    for (y, m, d, h, mi, s, us, off) in vals[:ctx.pick(200, 2000)]:
        tz = None if off is None else (sd.UtcTimezone() if off == "utc" else
                                       sd.FixedOffsetTimezone(datetime.timedelta(minutes=off)))
        dtv = datetime.datetime(y, m, d, h, mi, s, us, tzinfo=tz)
        t = wire.send("dt", dtv)
        v = wire.recv("dt", t)
        if v != dtv or v.utcoffset() != dtv.utcoffset():
            ctx.fail("dateTime wire round trip differs", {"value": dtv.isoformat()}, repr(v), repr(dtv))
        t = wire.send("da", dtv.date())
        v = wire.recv("da", t)
        if v != dtv.date():
            ctx.fail("date wire round trip differs", {"value": t}, repr(v), repr(dtv.date()))
        t = wire.send("ti", dtv.timetz())
        v = wire.recv("ti", t)
        if v != dtv.timetz():
            ctx.fail("time wire round trip differs", {"value": t}, repr(v), repr(dtv.timetz()))
    restricted_simple_types(ctx)
    attribute_values(ctx)
    attributes_by_context(ctx)
    typed_by_xsi(ctx)
    encoded_array_items(ctx)
    ctx.sample({"parse": cases[5]})
    ctx.sample({"parse": cases[len(cases) // 2]})
    ctx.sample({"decimal": str(vals[0]) if vals else None})


def attribute_values(ctx):
    """The same conversions hold for XML ATTRIBUTES of those types, in both directions - falsy values (false, 0, 0.0,
    the empty string) included."""
    import decimal
    types = [("ab", "boolean"), ("ai", "int"), ("ad", "decimal"), ("af", "double"), ("as", "string")]
    attrs = "".join('<xsd:attribute name="%s" type="xsd:%s"/>' % t for t in types)
    schema = ('<xsd:complexType name="O"><xsd:sequence/>%s</xsd:complexType><xsd:element name="f"><xsd:complexType>'
              '<xsd:sequence><xsd:element name="o" type="x:O"/></xsd:sequence></xsd:complexType></xsd:element>'
              '<xsd:element name="fResponse"><xsd:complexType><xsd:sequence><xsd:element name="o" type="x:O"/>'
              '</xsd:sequence></xsd:complexType></xsd:element>' % attrs)
    w = wsdlkit.wsdl_doc(schema, "f", "fResponse")
    req, rep = wsdlkit.client(w, nosend=True), wsdlkit.client(w)
    cases = [("ab", "false", False), ("ab", "0", False), ("ab", "true", True), ("ab", "1", True), ("ai", "0", 0),
             ("ai", "-000", 0), ("ai", "42", 42), ("ad", "0.00", decimal.Decimal("0.00")), ("ad", "1.5", decimal.Decimal("1.5")),
             ("af", "0.0", 0.0), ("af", "-0", -0.0), ("af", "2.5", 2.5), ("as", "", ""), ("as", "0", "0"),
             ("as", " pad ", " pad ")]
    for name, lex, value in cases:
        meta = {"stream": "attribute-values", "attribute": name, "text": lex}
        ctx.case(common.canon(meta), True)
        doc = ('<e:Envelope xmlns:e="%s"><e:Body><fResponse xmlns="%s"><o %s="%s"/></fResponse></e:Body></e:Envelope>'
               % (xmlread.ENV11, wsdlkit.TNS, name, lex)).encode()
        try:
            o = rep.service.f({}, __inject={"reply": doc})
            got = getattr(o, "_" + name, "absent") if o is not None else "no object"
        except Exception as e:
            got = repr(e)
        ok = (isinstance(got, str) and str(got) == value) if isinstance(value, str) else \
            (type(got) is type(value) and got == value)
        if not ok:
            ctx.fail("an attribute value of a reply is not decoded by its XSD type", meta, repr(got), repr(value))
        env = wsdlkit.envelope_bytes(req.service.f({"_" + name: value}))
        node = xmlread.find1(xmlread.find1(xmlread.find1(xmlread.parse(env), "Body"), "f"), "o")
        sent = None if node is None else node["attrs"].get((None, name))
        ok = sent is not None and (sent == lex or (name in ("ad", "af", "ai") and float(sent) == float(lex)) or
                                   (name == "ab" and sent in (("true", "1") if value else ("false", "0"))))
        if not ok:
            ctx.fail("an attribute value is not sent in the lexical form of its XSD type", meta, sent, lex)


def attributes_by_context(ctx):
    """Attribute values are converted by the type declared where the attribute stands: two local elements with one
    name (order/item, summary/item) whose same-named attributes have different built-in types, in one reply, in either
    order, each occurring more than once."""
    import datetime
    import decimal
    schema = ('<xsd:complexType name="A"><xsd:sequence/><xsd:attribute name="v" type="xsd:int"/>'
              '<xsd:attribute name="when" type="xsd:date"/><xsd:attribute name="amt" type="xsd:string"/></xsd:complexType>'
              '<xsd:complexType name="B"><xsd:sequence/><xsd:attribute name="v" type="xsd:boolean"/>'
              '<xsd:attribute name="when" type="xsd:dateTime"/><xsd:attribute name="amt" type="xsd:decimal"/></xsd:complexType>'
              '<xsd:complexType name="Order"><xsd:sequence><xsd:element name="item" type="x:A" maxOccurs="unbounded"/>'
              '</xsd:sequence></xsd:complexType>'
              '<xsd:complexType name="Summary"><xsd:sequence><xsd:element name="item" type="x:B" maxOccurs="unbounded"/>'
              '</xsd:sequence></xsd:complexType>'
              '<xsd:element name="f"><xsd:complexType><xsd:sequence/></xsd:complexType></xsd:element>'
              '<xsd:element name="fResponse"><xsd:complexType><xsd:sequence><xsd:element name="r"><xsd:complexType>'
              '<xsd:sequence><xsd:element name="order" type="x:Order" minOccurs="0"/><xsd:element name="summary" '
              'type="x:Summary" minOccurs="0"/><xsd:element name="again" type="x:Order" minOccurs="0"/></xsd:sequence>'
              '</xsd:complexType></xsd:element></xsd:sequence></xsd:complexType></xsd:element>')
    c = wsdlkit.client(wsdlkit.wsdl_doc(schema, "f", "fResponse"))
    a_items = '<item v="1" when="2013-11-19" amt="1.50"/><item v="0" when="2000-02-29" amt="x"/>'
    b_items = '<item v="1" when="2013-11-19T10:00:00" amt="1.50"/><item v="0" when="2000-02-29T00:00:00Z" amt="2"/>'
    want_a = [[1, datetime.date(2013, 11, 19), "1.50"], [0, datetime.date(2000, 2, 29), "x"]]
    want_b = [[True, datetime.datetime(2013, 11, 19, 10), decimal.Decimal("1.50")],
              [False, None, decimal.Decimal("2")]]
    for variant, inner in (("order-first", "<order>%s</order><summary>%s</summary><again>%s</again>" % (a_items, b_items, a_items)),
                           ("summary-only", "<summary>%s</summary>" % b_items),
                           ("order-only", "<order>%s</order>" % a_items)):
        meta = {"stream": "attributes-by-context", "variant": variant}
        ctx.case(common.canon(meta), True)
        doc = ('<e:Envelope xmlns:e="%s"><e:Body><fResponse xmlns="%s"><r>%s</r></fResponse></e:Body></e:Envelope>'
               % (xmlread.ENV11, wsdlkit.TNS, inner)).encode()
        try:
            r = c.service.f(__inject={"reply": doc})
        except Exception as e:
            ctx.fail("a valid reply with typed attributes could not be decoded", meta, repr(e), "a value")
            continue

        def rows(part):
            out = []
            for it in (getattr(part, "item", None) or []):
                out.append([getattr(it, "_v", None), getattr(it, "_when", None), getattr(it, "_amt", None)])
            return out
        for name, want in (("order", want_a), ("summary", want_b), ("again", want_a)):
            part = getattr(r, name, None)
            if part is None:
                continue
            got = rows(part)
            ok = len(got) == len(want)
            for g, w_ in zip(got, want):
                for gv, wv in zip(g, w_):
                    if wv is None:
                        ok = ok and isinstance(gv, datetime.datetime)
                    else:
                        ok = ok and type(gv) is type(wv) and gv == wv if not isinstance(wv, str) else ok and str(gv) == wv
            if not ok:
                ctx.fail("attribute values are not decoded by the type declared for their own element", dict(meta, part=name),
                         repr(got), repr(want))


def typed_by_xsi(ctx):
    """A reply leaf whose built-in type comes from xsi:type (the element is declared xsd:anyType) is converted by that
    type, like a leaf declared with it - and text that is no value of the type raises ValueError just the same."""
    import datetime
    import decimal
    schema = ('<xsd:element name="f"><xsd:complexType><xsd:sequence/></xsd:complexType></xsd:element>'
              '<xsd:element name="fResponse"><xsd:complexType><xsd:sequence><xsd:element name="any" type="xsd:anyType"/>'
              '</xsd:sequence></xsd:complexType></xsd:element>')
    c = wsdlkit.client(wsdlkit.wsdl_doc(schema, "f", "fResponse"))
    cases = [("int", "42", 42), ("boolean", "true", True), ("boolean", "0", False), ("decimal", "1.50", decimal.Decimal("1.50")),
             ("double", "2.5", 2.5), ("date", "2001-02-03", datetime.date(2001, 2, 3)), ("string", "7", "7"),
             ("dateTime", "2001-02-03T04:05:06", datetime.datetime(2001, 2, 3, 4, 5, 6)), ("long", "-7", -7),
             ("dateTime", "2001-02-30T04:05:06", ValueError), ("date", "20010203", ValueError),
             # a date is a date: text shaped like a dateTime is no value of xsd:date
             ("date", "2001-05-17T00:00:00", ValueError), ("date", "2001-02-28T23:59:59.9999995", ValueError),
             ("date", "2001-05-17T00:00:00Z", ValueError), ("date", "2001-05-17Z", datetime.date(2001, 5, 17))]
    for t, lex, want in cases:
        meta = {"stream": "typed-by-xsi", "type": t, "text": lex}
        ctx.case(common.canon(meta), True)
        doc = ('<e:Envelope xmlns:e="%s" xmlns:xsi="%s" xmlns:xs="%s"><e:Body><fResponse xmlns="%s"><any xsi:type="xs:%s">%s'
               '</any></fResponse></e:Body></e:Envelope>' % (xmlread.ENV11, xmlread.XSI, xmlread.XSD, wsdlkit.TNS, t, lex)).encode()
        try:
            got = c.service.f(__inject={"reply": doc})
            got = getattr(got, "any", got) if hasattr(got, "__keylist__") else got
        except ValueError:
            got = ValueError
        except Exception as e:
            got = repr(e)
        if want is ValueError:
            ok = got is ValueError
        elif isinstance(want, str):
            ok = isinstance(got, str) and str(got) == want
        else:
            ok = type(got) is type(want) and got == want
        if not ok:
            ctx.fail("a leaf typed by xsi:type is not converted by that type", meta, repr(got),
                     "ValueError" if want is ValueError else repr(want))


def encoded_array_items(ctx):
    """The items of a SOAP-encoded array are values of the item type like any other leaf: written in the item type's
    XSD lexical form."""
    import datetime
    import decimal
    arrays = {"boolean": [(True, "true"), (False, "false")],
              "double": [(float("inf"), "INF"), (float("-inf"), "-INF"), (float("nan"), "NaN"), (2.5, "2.5"), (1, "1")],
              "float": [(float("inf"), "INF"), (0.5, "0.5")],
              "decimal": [(decimal.Decimal("1E+3"), "1000"), (decimal.Decimal("1.50"), "1.5"), (decimal.Decimal("250.00"), "250"), (7, "7")],
              "int": [(7, "7"), (-3, "-3")],
              "string": [("true", "true"), ("x y", "x y")],
              "date": [(datetime.date(2001, 2, 3), "2001-02-03")],
              "dateTime": [(datetime.datetime(2001, 2, 3, 4, 5, 6), "2001-02-03T04:05:06")]}
    schema = '<xsd:import namespace="http://schemas.xmlsoap.org/soap/encoding/"/>' + "".join(
        '<xsd:complexType name="ArrayOf_%s"><xsd:complexContent><xsd:restriction base="soapenc:Array"><xsd:attribute '
        'ref="soapenc:arrayType" wsdl:arrayType="xsd:%s[]"/></xsd:restriction></xsd:complexContent></xsd:complexType>' % (t, t)
        for t in sorted(arrays))
    names = sorted(arrays)
    w = wsdlkit.wsdl_doc(schema, style="rpc", use="encoded",
                         in_parts=[("p_%s" % t, "type", "x:ArrayOf_%s" % t) for t in names],
                         out_parts=[("return", "type", "xsd:string")])
    c = wsdlkit.client(w, nosend=True)
    meta = {"stream": "encoded-array-items"}
    ctx.case(common.canon(meta), True)
    try:
        env = wsdlkit.envelope_bytes(c.service.f(*[[v for v, _l in arrays[t]] for t in names]))
        fnode = xmlread.find1(xmlread.parse(env), "Body")["children"][0]
        got = {p["name"][1][2:]: [i.get("text") for i in p["children"]] for p in fnode["children"]}
    except Exception as e:
        got = "%s: %s" % (type(e).__name__, e)
    want = {t: [l for _v, l in arrays[t]] for t in names}
    if got != want:
        bad = sorted(t for t in names if not isinstance(got, dict) or got.get(t) != want[t])
        ctx.fail("the items of an encoded array are not written in the lexical form of the item type",
                 dict(meta, types=bad), got if not isinstance(got, dict) else {t: got.get(t) for t in bad},
                 {t: want[t] for t in bad})


def restricted_untranslated():
    """D46 witness: Flag = restriction of xsd:boolean; True is sent as 'True'."""
    schema = ('<xsd:simpleType name="Flag"><xsd:restriction base="xsd:boolean"/></xsd:simpleType><xsd:element name="f">'
              '<xsd:complexType><xsd:sequence><xsd:element name="a" type="x:Flag"/></xsd:sequence></xsd:complexType>'
              '</xsd:element>')
    c = wsdlkit.client(wsdlkit.wsdl_doc(schema, "f", None), nosend=True)
    env = wsdlkit.envelope_bytes(c.service.f(True))
    return xmlread.find1(xmlread.find1(xmlread.find1(xmlread.parse(env), "Body"), "f"), "a")["text"] != "true"


def widen(ctx):
    ctx.tier = "thorough"
    run(ctx)


def witness(ctx, k):
    w = k["witness"]
    if w.get("kind") == "restricted-simple-type":
        return restricted_untranslated()
    if "kind" in w:
        exp = oracle_parse(w["kind"], w["s"])
        impl = impl_parse(w["kind"], w["s"])
        if exp == "t24":
            return "err" in impl
        if exp == "invalid":
            return "err" not in impl
        return False
    if "float" in w:
        wire = Wire()
        t = wire.send("fl", float(w["float"]))
        return XSD_FLOAT.match(t or "") is None
    return False


def replay(ctx, payload):
    f = payload.get("failure") or {}
    inp = f.get("input") or {}
    if "kind" in inp and "s" in inp:
        opname = {"date": "xsd.parseDate", "time": "xsd.parseTime", "dateTime": "xsd.parseDateTime"}
        m = ctx.driver.ask([{"op": opname[inp["kind"]], "s": inp["s"]}])[0]
        check_parse(ctx, inp["kind"], inp["s"], m)
        return {"fails": bool(ctx.failures), "failures": ctx.failures, "impl": impl_parse(inp["kind"], inp["s"]),
                "model": m, "oracle": oracle_parse(inp["kind"], inp["s"])}
    return {"fails": bool(f), "recorded": f}
