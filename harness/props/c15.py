"""C15 - The HTTP transport delivers exactly the bytes and headers it was given."""
import base64
import gzip
import http.server
import socket
import threading
import zlib

from harness import common, wsdlkit

ID = "C15"
LEAN_MODULES = ["SudsModel.Props.C15"]
RULE = ("exchanges with a loopback HTTP server that records the raw request: message bytes 0..64 KiB incl. non-UTF-8, "
        "caller header maps over token names, Content-Encoding none/gzip/deflate both ways, credentials over "
        "printable Unicode (incl. ':' in the password, '+' '/' producing encodings), response statuses 200..599 with "
        "bodies, cookie histories up to 5 requests (set / replace / expire / other path), connection refused / reset / "
        "no response, non-ASCII URLs; non-trivial = anything but a plain 200 exchange without options; distinct = "
        "distinct exchanges"
        ' ; plus: sequences of different operations on one client, challenge-response credentials changed between requests, header names / coding labels in other spellings, connections broken in the middle of a body'
        ' ; the same Request sent twice; status mapping with debug logging switched on; empty header values in the headers option'
        ' ; caller values for User-Agent / Accept; error bodies on open(); a peer that never answers the connection attempt'
        ' ; open() on a refused connection; a proxy named only by the process environment is not used'
        ' ; a cookie set for another path; one Request sent again after the credentials changed'
        ' ; edge bytes at either end of a body; copied transports'
        ' ; delivered once when the connection breaks; cookies of responses with unreadable bodies; white space outside ASCII in URLs'
        ' ; documents through the proxy and under a challenge; several schemes offered')
ASSUMPTIONS = ["urllib / http.client / http.cookiejar / gzip / zlib are runtime (trusted); the loopback server is the "
               "independent observer of what is on the wire"]
PARTIAL = [{"theorem": "body_fidelity / cookies / failures", "missing": "socket-level behaviour is runtime: checked by the "
            "harness only; the Lean theorems cover Base64 credentials, status mapping and coding selection"}]
TRUSTED = ["CPython urllib, http.client, http.cookiejar, gzip, zlib"]


class Handler(http.server.BaseHTTPRequestHandler):
    protocol_version = "HTTP/1.0"

    def log_message(self, *a):
        pass

    def do_POST(self):
        srv = self.server
        n = int(self.headers.get("Content-Length") or 0)
        body = self.rfile.read(n) if n else b""
        srv.seen.append({"method": self.command, "path": self.path,
                         "headers": [(k, v) for k, v in self.headers.items()], "body": body})
        plan = srv.plan(self) if srv.plan else {}
        if plan.get("reset"):
            try:
                self.connection.setsockopt(socket.SOL_SOCKET, socket.SO_LINGER, b"\x01\x00\x00\x00\x00\x00\x00\x00")
            except Exception:
                pass
            self.connection.close()
            return
        if plan.get("silent"):
            self.close_connection = True
            return
        status = plan.get("status", 200)
        out = plan.get("body", b"<ok/>")
        self.send_response(status)
        for k, v in plan.get("headers", []):
            self.send_header(k, v)
        self.send_header("Content-Length", str(len(out)))
        self.end_headers()
        if plan.get("truncate_after") is not None:
            # the connection breaks in the middle of the body
            self.wfile.write(out[:plan["truncate_after"]])
            self.wfile.flush()
            self.close_connection = True
            try:
                self.connection.shutdown(socket.SHUT_RDWR)
            except Exception:
                pass
            return
        if status not in (204, 304):
            self.wfile.write(out)

    do_GET = do_POST


class Server:
    def __init__(self):
        self.httpd = http.server.HTTPServer(("127.0.0.1", 0), Handler)
        self.httpd.seen = []
        self.httpd.plan = None
        self.port = self.httpd.server_address[1]
        self.thread = threading.Thread(target=self.httpd.serve_forever, kwargs={"poll_interval": 0.02}, daemon=True)
        self.thread.start()

    def url(self, path="/svc"):
        return "http://127.0.0.1:%d%s" % (self.port, path)

    def close(self):
        self.httpd.shutdown()
        self.httpd.server_close()


def hdr(seen, name):
    vals = [v for k, v in seen["headers"] if k.lower() == name.lower()]
    return vals


def rand_bytes(rng, n):
    mode = rng.random()
    if mode < 0.3:
        return rng.getrandbits(8 * n).to_bytes(n, "big") if n else b""
    if mode < 0.6:
        return ("<a>%s</a>" % ("é€x" * (n // 6))).encode("utf-8")[:n]
    return (b"\x00\xff\r\n\r\n" * (n // 6 + 1))[:n]


def wsdl_two_ops(location):
    """three operations: f and g with their own soapAction, h without a soap:operation"""
    W, T = wsdlkit.WNS, wsdlkit.TNS
    w = ['<?xml version="1.0"?><wsdl:definitions targetNamespace="%s" xmlns:wsdl="http://schemas.xmlsoap.org/wsdl/" '
         'xmlns:w="%s" xmlns:x="%s" xmlns:soap="http://schemas.xmlsoap.org/wsdl/soap/" '
         'xmlns:xsd="http://www.w3.org/2001/XMLSchema"><wsdl:types><xsd:schema targetNamespace="%s" '
         'elementFormDefault="qualified">' % (W, W, T, T)]
    for m in "fgh":
        w.append('<xsd:element name="%s"><xsd:complexType><xsd:sequence/></xsd:complexType></xsd:element>' % m)
    w.append('</xsd:schema></wsdl:types>')
    for m in "fgh":
        w.append('<wsdl:message name="%sIn"><wsdl:part name="p" element="x:%s"/></wsdl:message>' % (m, m))
    w.append('<wsdl:portType name="PT">')
    for m in "fgh":
        w.append('<wsdl:operation name="%s"><wsdl:input message="w:%sIn"/></wsdl:operation>' % (m, m))
    w.append('</wsdl:portType><wsdl:binding name="B" type="w:PT"><soap:binding style="document" '
             'transport="http://schemas.xmlsoap.org/soap/http"/>')
    for m in "fgh":
        sop = '<soap:operation soapAction="urn:act:%s"/>' % m if m != "h" else ""
        w.append('<wsdl:operation name="%s">%s<wsdl:input><soap:body use="literal"/></wsdl:input></wsdl:operation>' % (m, sop))
    w.append('</wsdl:binding><wsdl:service name="S"><wsdl:port name="P" binding="w:B"><soap:address location="%s"/>'
             '</wsdl:port></wsdl:service></wsdl:definitions>' % location)
    return "".join(w).encode()


def run(ctx):
    import suds.transport
    import suds.transport.http
    import suds.transport.https
    rng = ctx.rng
    srv = Server()
    try:
        # ---- body + headers fidelity, content encodings
        for _ in range(ctx.pick(120, 3000)):
            n = rng.choice([0, 1, 2, 100, 1000, 65536, rng.randint(0, 5000)])
            msg = rand_bytes(rng, n)
            ce = rng.choice([None, None, "gzip", "deflate", "identity", "br"])
            headers = {"Content-Type": "text/xml; charset=utf-8", "SOAPAction": '"urn:a"'}
            for _h in range(rng.randint(0, 3)):
                headers["X-%s" % rng.choice(["A", "b-c", "Tok_1", "Z9"])] = rng.choice(["v", "a b", "x;y=z", ""])
            if rng.random() < 0.3:
                # headers an HTTP library has defaults of its own for: the caller's value is the one delivered
                headers[rng.choice(["User-Agent", "user-agent", "USER-AGENT"])] = "verif-agent/1.0"
            if rng.random() < 0.2:
                headers[rng.choice(["Accept", "accept"])] = "text/xml, application/soap+xml"
            # field names and content-coding values are case-insensitive; x-gzip = gzip (RFC 7230 3.2, RFC 7231 3.1.2.1)
            ce_req_name = rng.choice(["Content-Encoding", "Content-Encoding", "content-encoding", "CONTENT-ENCODING"])
            ce_label = ce
            if ce:
                ce_label = rng.choice({"gzip": ["gzip", "gzip", "GZIP", "x-gzip", "Gzip"],
                                       "deflate": ["deflate", "deflate", "Deflate", "DEFLATE"]}.get(ce, [ce]))
                headers[ce_req_name] = ce_label
            resp_body = rand_bytes(rng, rng.choice([0, 10, 3000]))
            rce = rng.choice([None, None, "gzip", "deflate", "gzip-multi", "gzip-empty"])
            if rce == "gzip-multi":
                # RFC 1952: a gzip file is a series of members; the body is their concatenation
                k = len(resp_body) // 2
                wire = gzip.compress(resp_body[:k]) + gzip.compress(resp_body[k:])
            elif rce == "gzip-empty":
                resp_body, wire = b"", b""
            else:
                wire = resp_body if rce is None else (gzip.compress(resp_body) if rce == "gzip" else zlib.compress(resp_body))
            # header field names are case-insensitive (RFC 7230 3.2): the server may spell them any way
            ce_name = rng.choice(["Content-Encoding", "Content-Encoding", "content-encoding", "CONTENT-ENCODING",
                                  "Content-encoding"])
            rce_label = None
            if rce:
                rce_label = rng.choice(["gzip", "gzip", "GZIP", "x-gzip"] if rce.startswith("gzip") else
                                       ["deflate", "deflate", "Deflate"])
            rh = [(ce_name, rce_label)] if rce else []
            srv.httpd.plan = lambda h, wire=wire, rh=rh: {"status": 200, "body": wire, "headers": rh}
            t = suds.transport.http.HttpTransport()
            req = suds.transport.Request(srv.url(), msg)
            req.headers = dict(headers)
            del srv.httpd.seen[:]
            meta = {"len": n, "content_encoding": ce, "response_encoding": rce, "headers": headers,
                    "response_header": [ce_name, rce_label] if rce else None}
            ctx.dist["coding-label:request=%s" % ("plain" if not ce else "canonical" if (ce_req_name, ce_label) ==
                                                     ("Content-Encoding", ce) else "other-spelling")] += 1
            ctx.dist["coding-label:response=%s" % ("plain" if not rce else "canonical" if (ce_name, rce_label) in
                                                      (("Content-Encoding", "gzip"), ("Content-Encoding", "deflate"))
                                                      else "other-spelling")] += 1
            ctx.case(common.digest([meta, rng.random()]), bool(ce or rce or n > 1000 or len(headers) > 2))
            try:
                reply = t.send(req)
            except Exception as e:
                ctx.fail("plain exchange failed", meta, repr(e), "a reply")
                continue
            seen = srv.httpd.seen[-1] if srv.httpd.seen else None
            if seen is None:
                ctx.fail("server saw no request", meta, None, "one request")
                continue
            got = seen["body"]
            try:
                if ce == "gzip":
                    got = gzip.decompress(got)
                elif ce == "deflate":
                    got = zlib.decompress(got)
            except Exception as e:
                got = b"!undecodable: " + repr(e).encode()
            if got != msg:
                ctx.fail("server did not receive the envelope bytes", meta, got[:40], msg[:40])
            for k, v in headers.items():
                if hdr(seen, k) != [v]:
                    ctx.fail("caller header not delivered exactly once with its value", dict(meta, header=k),
                             hdr(seen, k), [v])
            if reply.message != resp_body:
                ctx.fail("caller did not receive the response body", meta, reply.message[:40], resp_body[:40])
            if rng.random() < 0.3:
                # the same Request object sent again (a retry): the same exchange again
                del srv.httpd.seen[:]
                try:
                    reply2 = t.send(req)
                except Exception as e:
                    ctx.fail("sending the same request again failed", meta, repr(e), "a reply")
                    continue
                seen2 = srv.httpd.seen[-1] if srv.httpd.seen else None
                got2 = None if seen2 is None else seen2["body"]
                try:
                    # (compressed bytes may differ between two sends: gzip stamps the time; the content may not)
                    if got2 is not None and ce == "gzip":
                        got2 = gzip.decompress(got2)
                    elif got2 is not None and ce == "deflate":
                        got2 = zlib.decompress(got2)
                except Exception as e:
                    got2 = b"!undecodable: " + repr(e).encode()
                if seen2 is None or got2 != msg or reply2.message != resp_body \
                        or any(hdr(seen2, k) != [v] for k, v in headers.items()):
                    ctx.fail("the same request sent again is not the same exchange", meta,
                             None if seen2 is None else [got2[:40], reply2.message[:40]],
                             [msg[:40], resp_body[:40]])
        # ---- bodies whose first / last bytes a tolerant reader might take for padding: byte order marks and parts of
        # them, white space, NUL - as message and as response, plain and under each content coding
        edges = [b"\xef\xbb\xbf", b"\xef", b"\xbb", b"\xbf\xef", b"\xff\xfe", b"\xfe\xff", b" ", b"\n", b"\r\n", b"\t",
                 b"\x00", b"\x0b\x0c", b"\xc2\xa0", b"\x1f\x8b", b"\x78\x9c"]
        for edge in edges:
            for where in ("start", "end", "both", "only"):
                core = b"<a>x</a>"
                body_ = {"start": edge + core, "end": core + edge, "both": edge + core + edge, "only": edge * 2}[where]
                for coding in (None, "gzip", "deflate"):
                    wire = body_ if coding is None else gzip.compress(body_) if coding == "gzip" else zlib.compress(body_)
                    rh = [("Content-Encoding", coding)] if coding else []
                    srv.httpd.plan = lambda h, wire=wire, rh=rh: {"status": 200, "body": wire, "headers": rh}
                    t = suds.transport.http.HttpTransport()
                    req = suds.transport.Request(srv.url(), body_)
                    req.headers = {"Content-Type": "text/xml"}
                    if coding:
                        req.headers["Content-Encoding"] = coding
                    del srv.httpd.seen[:]
                    meta = {"stream": "edge-bytes", "edge": repr(edge), "where": where, "coding": coding}
                    ctx.case(("edge-bytes", repr(edge), where, coding), True)
                    try:
                        reply = t.send(req)
                    except Exception as e:
                        ctx.fail("plain exchange failed", meta, repr(e), "a reply")
                        continue
                    seen = srv.httpd.seen[-1] if srv.httpd.seen else None
                    got = None if seen is None else seen["body"]
                    try:
                        if got is not None and coding == "gzip":
                            got = gzip.decompress(got)
                        elif got is not None and coding == "deflate":
                            got = zlib.decompress(got)
                    except Exception as e:
                        got = b"!undecodable: " + repr(e).encode()
                    if got != body_:
                        ctx.fail("server did not receive the envelope bytes", meta, repr(got), repr(body_))
                    if reply.message != body_:
                        ctx.fail("caller did not receive the response body", meta, repr(reply.message), repr(body_))
        # ---- the SOAPAction a real client sends (declared in the WSDL, non-ASCII included), over the real transport
        for action in ("urn:act", "caf\u00e9-\u00fcber", "\u03a9mega", ""):
            wsdl = wsdlkit.wsdl_doc('<xsd:element name="f"><xsd:complexType><xsd:sequence/></xsd:complexType>'
                                    '</xsd:element>', "f", None, location=srv.url("/act"), action=action)
            srv.httpd.plan = lambda h: {"status": 200, "body": b""}
            del srv.httpd.seen[:]
            c = wsdlkit.client(wsdl, transport=suds.transport.https.HttpAuthenticated())
            meta = {"soapAction": action}
            ctx.case(("soapaction", action), True)
            try:
                c.service.f()
            except Exception as e:
                ctx.fail("a call with this soapAction failed", meta, repr(e), "a request")
                continue
            seen = srv.httpd.seen[-1] if srv.httpd.seen else None
            got = hdr(seen, "SOAPAction") if seen else None
            # http.server decodes header bytes as ISO-8859-1: undo that to see the bytes on the wire
            raw = [g.encode("iso-8859-1") for g in got] if got else got
            want = [('"%s"' % action).encode("utf-8")]
            if raw != want:
                ctx.fail("the SOAPAction of the WSDL does not reach the server (UTF-8) exactly once", meta, raw, want)
        # ---- one client, several operations and header settings in sequence: every request carries the SOAPAction of
        #      its own operation and the caller's headers as they are set at that moment; the option is not modified
        wsdl2 = wsdl_two_ops(srv.url("/seq"))
        for _ in range(ctx.pick(6, 60)):
            srv.httpd.plan = lambda h: {"status": 200, "body": b""}
            user_headers = {}
            c = wsdlkit.client(wsdl2, transport=suds.transport.http.HttpTransport(), headers=user_headers)
            hist = []
            for step in range(rng.randint(2, 6)):
                opn = rng.choice(["f", "g", "h"])
                if rng.random() < 0.4:
                    user_headers = rng.choice([{}, {"X-Tok": "t%d" % step}, {"SOAPAction": '"urn:forced"'},
                                               {"Content-Type": "application/soap+xml", "X-Q": "q"},
                                               {"X-Empty": "", "X-Zero": "0"}])
                    c.set_options(headers=user_headers)
                before = dict(user_headers)
                del srv.httpd.seen[:]
                hist.append([opn, before])
                ctx.case(("opseq", common.canon(hist)), True)
                try:
                    getattr(c.service, opn)()
                except Exception as e:
                    ctx.fail("a call in a sequence of operations failed", {"history": hist}, repr(e), "a request")
                    break
                seen = srv.httpd.seen[-1] if srv.httpd.seen else None
                want = {"SOAPAction": '"urn:act:%s"' % opn if opn != "h" else '""',
                        "Content-Type": "text/xml; charset=utf-8"}
                want.update(before)
                got = {k: hdr(seen, k) for k in want} if seen else None
                if got != {k: [v] for k, v in want.items()}:
                    ctx.fail("a request in a sequence does not carry its own SOAPAction / the caller's current headers",
                             {"history": hist}, got, want)
                    break
                if user_headers != before or c.options.headers != before:
                    ctx.fail("sending a request modified the caller's headers option", {"history": hist},
                             [user_headers, c.options.headers], before)
                    break
        # ---- challenge-response credentials (transport.https): the server asks (401 + WWW-Authenticate) and recovers
        #      the credentials configured at the time of each request, also after they were changed
        def challenge(h):
            if h.headers.get("Authorization"):
                return {"status": 200, "body": b"<ok/>"}
            return {"status": 401, "body": b"<denied/>", "headers": [("WWW-Authenticate", 'Basic realm="r"')]}
        for _ in range(ctx.pick(10, 150)):
            t = suds.transport.https.HttpAuthenticated()
            path = "/cr%d" % rng.randint(0, 2)
            hist = []
            for step in range(rng.randint(1, 4)):
                user, pw = rng.choice(["alice", "bob", "u-%d" % step, "ü"]), rng.choice(["s3cret", "", "p w", "€%d" % step])
                t.options.username, t.options.password = user, pw
                srv.httpd.plan = challenge
                del srv.httpd.seen[:]
                hist.append([user, pw])
                ctx.case(("challenge", path, common.canon(hist)), True)
                try:
                    t.send(suds.transport.Request(srv.url(path), b"<m/>"))
                except Exception as e:
                    ctx.fail("challenge-response exchange failed", {"history": hist}, repr(e), "a reply")
                    break
                auth = hdr(srv.httpd.seen[-1], "Authorization") if srv.httpd.seen else []
                rec = None
                if len(auth) == 1 and auth[0].startswith("Basic "):
                    try:
                        u, _, p_ = base64.b64decode(auth[0][6:], validate=True).decode("utf-8").partition(":")
                        rec = [u, p_]
                    except Exception as e:
                        rec = ["undecodable", repr(e)[:40]]
                if rec != [user, pw]:
                    ctx.fail("server does not recover the configured username and password after its challenge",
                             {"history": hist}, [auth, rec], [user, pw])
                    break
        # ---- proxy option: followed at every request, also when changed after the first one
        proxy = Server()
        try:
            t = suds.transport.http.HttpTransport()
            for step, use_proxy in enumerate([False, True, False, True]):
                t.options.proxy = {"http": "127.0.0.1:%d" % proxy.port} if use_proxy else {}
                del srv.httpd.seen[:]
                del proxy.httpd.seen[:]
                srv.httpd.plan = proxy.httpd.plan = lambda h: {"status": 200, "body": b"<ok/>"}
                ctx.case(("proxy", step), True)
                try:
                    t.send(suds.transport.Request(srv.url("/p%d" % step), b"<m/>"))
                except Exception as e:
                    ctx.fail("exchange through the configured proxy setting failed", {"step": step, "proxy": use_proxy},
                             repr(e), "a reply")
                    continue
                where = ("proxy" if proxy.httpd.seen else "") + ("origin" if srv.httpd.seen else "")
                if where != ("proxy" if use_proxy else "origin"):
                    ctx.fail("the request did not go where the proxy option says", {"step": step, "proxy": use_proxy},
                             where, "proxy" if use_proxy else "origin")
        finally:
            proxy.close()
        # ---- documents are fetched (open) the way messages are sent: through the proxy currently configured - also when
        # it was set after the transport was made and nothing was sent yet -, with the credentials a challenge asks for
        proxy2 = Server()
        try:
            for when in ("constructor", "after-construction", "changed-twice"):
                proxy2.httpd.plan = srv.httpd.plan = lambda h: {"status": 200, "body": b"<doc/>"}
                pv = {"http": "127.0.0.1:%d" % proxy2.port}
                if when == "constructor":
                    t = suds.transport.http.HttpTransport(proxy=pv)
                else:
                    t = suds.transport.http.HttpTransport()
                    t.options.proxy = pv
                del srv.httpd.seen[:]
                del proxy2.httpd.seen[:]
                ctx.case(("open-through-proxy", when), True)
                try:
                    got = [t.open(suds.transport.Request(srv.url("/a.wsdl"))).read()]
                    if when == "changed-twice":
                        t.options.proxy = {}
                        got.append(t.open(suds.transport.Request(srv.url("/b.xsd"))).read())
                    where = [len(proxy2.httpd.seen), len(srv.httpd.seen)]
                except Exception as e:
                    got, where = repr(e), None
                want_where = [1, 1] if when == "changed-twice" else [1, 0]
                if where != want_where:
                    ctx.fail("the request did not go where the proxy option says", {"method": "open", "proxy_set": when},
                             [got, where], want_where)
        finally:
            proxy2.close()
        for first in ("open", "send"):
            t = suds.transport.https.HttpAuthenticated(username="doc-user", password="doc-pw")
            srv.httpd.plan = challenge
            del srv.httpd.seen[:]
            ctx.case(("challenge-on-open", first), True)
            try:
                if first == "send":
                    t.send(suds.transport.Request(srv.url("/svc"), b"<m/>"))
                body_ = t.open(suds.transport.Request(srv.url("/protected.wsdl"))).read()
                auth = hdr(srv.httpd.seen[-1], "Authorization")
                got = [body_, [base64.b64decode(a_[6:]).decode() if a_.startswith("Basic ") else a_ for a_ in auth]]
            except Exception as e:
                got = repr(e)
            if got != [b"<ok/>", ["doc-user:doc-pw"]]:
                ctx.fail("server does not recover the configured username and password after its challenge",
                         {"method": "open", "first_use": first}, got, [b"<ok/>", ["doc-user:doc-pw"]])
        # a server that offers several schemes (Negotiate first, then Basic): the Basic challenge is the one answered
        def multi(h):
            if h.headers.get("Authorization", "").startswith("Basic "):
                return {"status": 200, "body": b"<ok/>"}
            return {"status": 401, "body": b"<denied/>", "headers": [("WWW-Authenticate", "Negotiate"),
                                                                     ("WWW-Authenticate", 'Basic realm="r"')]}
        t = suds.transport.https.HttpAuthenticated(username="u", password="p")
        srv.httpd.plan = multi
        del srv.httpd.seen[:]
        ctx.case(("challenge-several-schemes",), True)
        try:
            r = t.send(suds.transport.Request(srv.url("/svc"), b"<m/>"))
            got = [r.message, hdr(srv.httpd.seen[-1], "Authorization")]
        except Exception as e:
            got = repr(e)
        if got != [b"<ok/>", ["Basic " + base64.b64encode(b"u:p").decode()]]:
            ctx.fail("server does not recover the configured username and password after its challenge",
                     {"challenge": ["Negotiate", 'Basic realm="r"']}, got, [b"<ok/>", ["Basic dTpw"]])
        # ---- statuses
        reqs, reals = [], []
        import logging
        status_list = list(range(200, 600, 7)) + [200, 201, 202, 204, 299, 300, 301, 304, 400, 401, 403, 404, 500, 503, 599]
        # (the second pass runs with debug logging switched on for suds: what is delivered does not depend on it)
        sink = logging.NullHandler()
        for status, debug in [(s_, False) for s_ in status_list] + [(s_, True) for s_ in (200, 204, 400, 401, 404, 500, 503)]:
            body = b"<e>%d</e>" % status
            slog = logging.getLogger("suds")
            old_level = slog.level
            if debug:
                slog.addHandler(sink)
                slog.setLevel(logging.DEBUG)
                old_disable = logging.root.manager.disable
                logging.disable(logging.NOTSET)
            loc = [("Location", srv.url("/elsewhere"))] if status in (301, 302, 303, 307, 308) and rng.random() < 0.5 else []
            srv.httpd.plan = (lambda h, status=status, body=body, loc=loc:
                              {"status": 200, "body": b"<moved/>"} if h.path == "/elsewhere"
                              else {"status": status, "body": body, "headers": loc})
            t = suds.transport.http.HttpTransport()
            req = suds.transport.Request(srv.url(), b"<m/>")
            try:
                r = t.send(req)
                real = ["reply", None if r is None else r.message]
            except suds.transport.TransportError as e:
                real = ["TransportError", e.httpcode, e.fp.read() if e.fp else b""]
            except Exception as e:
                real = ["other", repr(e)]
            finally:
                if debug:
                    logging.disable(old_disable)
                    slog.setLevel(old_level)
                    slog.removeHandler(sink)
            meta = {"status": status, "redirect": bool(loc), "debug_logging": debug}
            ctx.case(("status", status, bool(loc), debug), status != 200)
            if loc:
                # redirects are urllib's business; what matters: an error status surfaces, a success is a reply
                if real[0] not in ("reply", "TransportError"):
                    ctx.fail("redirected exchange failed oddly", meta, real, "reply or TransportError")
                continue
            reqs.append({"op": "http.outcome", "status": status})
            reals.append((meta, real, body))
        for (meta, real, body), ans in zip(reals, ctx.driver.ask(reqs)):
            exp = ans
            if exp is None:
                continue
            if exp[0] == "reply":
                ok = real[0] == "reply" and (real[1] == body or meta["status"] in (204, 304) and real[1] in (b"", None))
            else:
                ok = real[0] == "TransportError" and real[1] == exp[1] and (real[2] == body or meta["status"] == 304)
            ctx.compare("status-mapping", meta, [real[0]] + ([real[1]] if real[0] == "TransportError" else []), exp)
            if not ok:
                ctx.fail("HTTP status not surfaced as documented (TransportError with code and body / reply)", meta,
                         [str(x)[:60] for x in real], exp)
        # ---- credentials
        reqs, reals = [], []
        pool = ["user", "u", "ü", "a b", "~", "??>", "x" * 40, "€", "p:w:d", "", "+/=", "\U0001d11e",
                # not in any Unicode normal form: the server recovers these code points, not equivalent ones
                "e\u0308", "\u212b", "o\u0301x", "\u1e9b\u0323"]
        for _ in range(ctx.pick(150, 3000)):
            user = rng.choice(pool).replace(":", "") if rng.random() < 0.8 else "".join(
                chr(rng.randint(0x20, 0x2ff)) for _ in range(rng.randint(1, 6))).replace(":", "")
            pw = rng.choice(pool) if rng.random() < 0.7 else "".join(chr(rng.randint(0x20, 0x2ff)) for _ in range(rng.randint(0, 8)))
            srv.httpd.plan = None
            t = suds.transport.http.HttpAuthenticated(username=user, password=pw)
            del srv.httpd.seen[:]
            meta = {"user": user, "password": pw}
            ctx.case(("cred", user, pw), True)
            try:
                t.send(suds.transport.Request(srv.url(), b"<m/>"))
            except Exception as e:
                ctx.fail("authenticated exchange failed", meta, repr(e), "a reply")
                continue
            auth = hdr(srv.httpd.seen[-1], "Authorization")
            rec = None
            if len(auth) == 1 and auth[0].startswith("Basic "):
                try:
                    raw = base64.b64decode(auth[0][6:], validate=True)
                    u, _, p = raw.decode("utf-8").partition(":")
                    rec = [u, p]
                except Exception as e:
                    rec = ["undecodable", repr(e)[:40]]
            if rec != [user, pw]:
                ctx.fail("server does not recover the username and password from the Authorization header", meta,
                         [auth, rec], [user, pw])
            reqs.append({"op": "b64.creds", "user": list(user.encode("utf-8")), "pass": list(pw.encode("utf-8"))})
            reals.append((meta, auth[0][6:] if auth else None))
        for (meta, real), ans in zip(reals, ctx.driver.ask(reqs)):
            if ans is not None:
                ctx.compare("basic-credentials", meta, real, ans["header"])
        # ---- cookies: set / replace / expire / other path over up to 5 requests
        for _ in range(ctx.pick(40, 800)):
            t = suds.transport.http.HttpTransport()
            jar = {}
            hist = []
            reuse = suds.transport.Request(srv.url(), b"<m/>") if rng.random() < 0.5 else None
            for step in range(rng.randint(2, 5)):
                act = rng.choice(["set", "replace", "expire", "otherpath", "none"])
                name = rng.choice(["sid", "k2"])
                val = "v%d" % rng.randint(0, 99)
                if act in ("set", "replace"):
                    sc = [("Set-Cookie", "%s=%s; Path=/" % (name, val))]
                elif act == "expire":
                    sc = [("Set-Cookie", "%s=gone; Path=/; Max-Age=0" % name)]
                elif act == "otherpath":
                    sc = [("Set-Cookie", "op=%s; Path=/not-here" % val)]
                else:
                    sc = []
                srv.httpd.plan = lambda h, sc=sc: {"status": 200, "body": b"<ok/>", "headers": sc}
                del srv.httpd.seen[:]
                t.send(reuse if reuse is not None else suds.transport.Request(srv.url(), b"<m/>"))
                sent = hdr(srv.httpd.seen[-1], "Cookie")
                got = {}
                for c in (sent[0].split("; ") if sent else []):
                    k, _, v = c.partition("=")
                    got[k] = v
                hist.append((act, name, val))
                ctx.case(("cookie", tuple(hist)), True)
                if got != jar:
                    ctx.fail("cookies sent do not match what earlier responses set for this host", {"history": hist},
                             got, dict(jar))
                    break
                if act in ("set", "replace"):
                    jar[name] = val
                elif act == "expire":
                    jar.pop(name, None)
        # ---- a cookie set for another path of the same host is sent to that path (and not to this one)
        t = suds.transport.http.HttpTransport()
        srv.httpd.plan = lambda h: {"status": 200, "body": b"<ok/>",
                                    "headers": [("Set-Cookie", "op=there; Path=/elsewhere"), ("Set-Cookie", "here=1; Path=/svc")]}
        t.send(suds.transport.Request(srv.url("/svc"), b"<m/>"))
        srv.httpd.plan = lambda h: {"status": 200, "body": b"<ok/>"}
        got = {}
        for path in ("/elsewhere/x", "/svc"):
            del srv.httpd.seen[:]
            t.send(suds.transport.Request(srv.url(path), b"<m/>"))
            got[path] = sorted(hdr(srv.httpd.seen[-1], "Cookie"))
        ctx.case(("cookie-other-path",), True)
        if got != {"/elsewhere/x": ["op=there"], "/svc": ["here=1"]}:
            ctx.fail("cookies sent do not match what earlier responses set for this host", {"history": "cookie for another path"},
                     got, {"/elsewhere/x": ["op=there"], "/svc": ["here=1"]})
        # ---- the credentials in force at each send are the ones sent: the same Request again after they were changed
        t = suds.transport.http.HttpAuthenticated(username="u1", password="p1")
        req = suds.transport.Request(srv.url(), b"<m/>")
        recs = []
        for user, pw in (("u1", "p1"), ("u2", "p2"), ("u2", "")):
            t.options.username, t.options.password = user, pw
            del srv.httpd.seen[:]
            t.send(req)
            auth = hdr(srv.httpd.seen[-1], "Authorization")
            recs.append([base64.b64decode(a[6:]).decode("utf-8") if a.startswith("Basic ") else a for a in auth])
        ctx.case(("cred-resend",), True)
        if recs != [["u1:p1"], ["u2:p2"], ["u2:"]]:
            ctx.fail("server does not recover the username and password from the Authorization header",
                     {"history": "one Request sent again after the credentials changed"}, recs, [["u1:p1"], ["u2:p2"], ["u2:"]])
        # ---- a copy of a configured transport (what Client.clone() makes) is configured the same: it sends the
        # credentials the original was given
        import copy
        for how in ("deepcopy", "client.clone", "clone-of-clone"):
            user, pw = rng.choice(pool).replace(":", "") or "u", rng.choice(pool)
            t0 = suds.transport.http.HttpAuthenticated(username=user, password=pw, timeout=33)
            ctx.case(("copied-transport", how, user, pw), True)
            del srv.httpd.seen[:]
            srv.httpd.plan = lambda h: {"status": 200, "body": b""}
            try:
                if how == "deepcopy":
                    t1 = copy.deepcopy(t0)
                    t1.send(suds.transport.Request(srv.url(), b"<m/>"))
                else:
                    wsdl = wsdlkit.wsdl_doc('<xsd:element name="f"><xsd:complexType><xsd:sequence/></xsd:complexType>'
                                            '</xsd:element>', "f", None, location=srv.url("/cl"), action="urn:a")
                    c0 = wsdlkit.client(wsdl, transport=t0)
                    c1 = c0.clone() if how == "client.clone" else c0.clone().clone()
                    t1 = c1.options.transport
                    c1.service.f()
            except Exception as e:
                ctx.fail("authenticated exchange failed", {"stream": "copied-transport", "how": how}, repr(e), "a reply")
                continue
            auth = hdr(srv.httpd.seen[-1], "Authorization") if srv.httpd.seen else []
            rec = [base64.b64decode(a[6:]).decode("utf-8") if a.startswith("Basic ") else a for a in auth]
            got = [rec, t1.options.timeout, t1 is t0]
            want = [["%s:%s" % (user, pw)], 33, False]
            if got != want:
                ctx.fail("server does not recover the username and password from the Authorization header",
                         {"stream": "copied-transport", "how": how, "user": user, "password": pw}, got, want)
        # ---- non-HTTP failures propagate unchanged; non-ASCII URLs rejected before any I/O
        closed = socket.socket()
        closed.bind(("127.0.0.1", 0))
        port = closed.getsockname()[1]
        closed.close()
        import urllib.error
        t = suds.transport.http.HttpTransport()
        for method in ("send", "open"):
            ctx.case(("refused", method), True)
            try:
                if method == "send":
                    t.send(suds.transport.Request("http://127.0.0.1:%d/x" % port, b"<m/>"))
                else:
                    t.open(suds.transport.Request("http://127.0.0.1:%d/x.wsdl" % port))
                ctx.fail("connection refused did not raise", {"method": method}, "returned", "URLError")
            except suds.transport.TransportError as e:
                ctx.fail("non-HTTP failure was turned into a TransportError", {"method": method}, repr(e), "URLError")
            except urllib.error.URLError:
                pass
        # proxies come from the proxy option only: with none configured the request goes to the server named in the
        # URL, whatever the process environment says about proxies
        import os
        saved = {k: os.environ.get(k) for k in ("http_proxy", "HTTP_PROXY", "all_proxy", "ALL_PROXY", "no_proxy", "NO_PROXY")}
        try:
            for k in saved:
                os.environ.pop(k, None)
            os.environ["http_proxy"] = "http://127.0.0.1:%d" % port       # (nothing listens there)
            os.environ["HTTP_PROXY"] = "http://127.0.0.1:%d" % port
            srv.httpd.plan = lambda h: {"status": 200, "body": b"<direct/>"}
            del srv.httpd.seen[:]
            ctx.case("environment-proxy", True)
            try:
                r = suds.transport.http.HttpTransport().send(suds.transport.Request(srv.url(), b"<m/>"))
                got = [r.message, len(srv.httpd.seen)]
            except Exception as e:
                got = repr(e)
            if got != [b"<direct/>", 1]:
                ctx.fail("a request without a configured proxy did not go to the server named in its URL (the process "
                         "environment names a proxy)", {"http_proxy": os.environ["http_proxy"]}, got, [b"<direct/>", 1])
        finally:
            for k, v in saved.items():
                if v is None:
                    os.environ.pop(k, None)
                else:
                    os.environ[k] = v
        # documents are opened the same way: an error status surfaces with its code and its body
        for status in (403, 404, 500, 503):
            body = b"<html>no %d</html>" % status
            srv.httpd.plan = lambda h, status=status, body=body: {"status": status, "body": body}
            ctx.case(("open-error", status), True)
            try:
                fp = suds.transport.http.HttpTransport().open(suds.transport.Request(srv.url("/doc.wsdl")))
                got = ["opened", fp.read()[:60]]
            except suds.transport.TransportError as e:
                import gc
                gc.collect()
                got = ["TransportError", e.httpcode, e.fp.read() if e.fp else b""]
            except Exception as e:
                got = ["other", repr(e)]
            if got != ["TransportError", status, body]:
                ctx.fail("HTTP status not surfaced as documented (TransportError with code and body / reply)",
                         {"status": status, "method": "open"}, [str(x)[:60] for x in got], ["TransportError", status, body])
        # a peer that does not answer the connection attempt at all (accept queue full): urllib's URLError, unchanged
        lst = socket.socket()
        fillers = []
        try:
            lst.bind(("127.0.0.1", 0))
            lst.listen(0)
            lport = lst.getsockname()[1]
            for _f in range(4):
                f_ = socket.socket()
                f_.setblocking(False)
                f_.connect_ex(("127.0.0.1", lport))
                fillers.append(f_)
            import time
            time.sleep(0.05)
            probe = socket.socket()
            probe.settimeout(0.3)
            try:
                probe.connect(("127.0.0.1", lport))
                saturated = False
            except OSError:
                saturated = True
            finally:
                probe.close()
            ctx.dist["connect-timeout:listener saturated=%s" % saturated] += 1
            if saturated:
                ctx.case("connect-timeout", True)
                try:
                    suds.transport.http.HttpTransport(timeout=0.4).send(
                        suds.transport.Request("http://127.0.0.1:%d/x" % lport, b"<m/>"))
                    ctx.fail("an unanswered connection attempt did not raise", {}, "returned", "URLError")
                except suds.transport.TransportError as e:
                    ctx.fail("non-HTTP failure was turned into a TransportError", {"kind": "connect-timeout"}, repr(e), "URLError")
                except urllib.error.URLError:
                    pass
                except Exception as e:
                    ctx.fail("a non-HTTP failure does not propagate unchanged (urllib raises URLError for it)",
                             {"kind": "connect-timeout"}, repr(e), "URLError(timeout)")
        finally:
            for f_ in fillers:
                f_.close()
            lst.close()
        t = suds.transport.http.HttpTransport(timeout=1.5)
        for kind in ("reset", "silent"):
            srv.httpd.plan = lambda h, kind=kind: {kind: True}
            ctx.case(kind, True)
            del srv.httpd.seen[:]
            try:
                t.send(suds.transport.Request(srv.url(), b"<m/>"))
                ctx.fail("broken connection did not raise", {"kind": kind}, "returned", "an exception")
            except suds.transport.TransportError as e:
                ctx.fail("non-HTTP failure was turned into a TransportError", {"kind": kind}, repr(e), "socket error")
            except Exception:
                pass
            # (the failure is the caller's to handle: the envelope was delivered once, not sent again behind its back)
            if len(srv.httpd.seen) != 1:
                ctx.fail("a request whose connection broke in the response phase was not delivered exactly once",
                         {"kind": kind}, len(srv.httpd.seen), 1)
        # a response that sets a cookie and whose body then cannot be decoded / read: the cookie was set all the same
        for kind in ("bad-gzip", "bad-deflate", "truncated"):
            tc = suds.transport.http.HttpTransport(timeout=1.5)
            plan_ = {"status": 200, "body": b"\x1f\x8b garbage, not a gzip stream", "headers": [
                ("Set-Cookie", "sid=c-%s; Path=/" % kind), ("Content-Encoding", "gzip" if kind == "bad-gzip" else "deflate")]}
            if kind == "truncated":
                plan_ = {"status": 200, "body": b"<r>" + b"x" * 100 + b"</r>", "truncate_after": 5,
                         "headers": [("Set-Cookie", "sid=c-%s; Path=/" % kind)]}
            srv.httpd.plan = lambda h, plan_=plan_: plan_
            ctx.case(("cookie-with-unreadable-body", kind), True)
            try:
                tc.send(suds.transport.Request(srv.url(), b"<m/>"))
                first = "returned"
            except Exception as e:
                first = type(e).__name__
            srv.httpd.plan = lambda h: {"status": 200, "body": b"<ok/>"}
            del srv.httpd.seen[:]
            try:
                tc.send(suds.transport.Request(srv.url(), b"<m/>"))
                got = hdr(srv.httpd.seen[-1], "Cookie")
            except Exception as e:
                got = repr(e)
            if got != ["sid=c-%s" % kind]:
                ctx.fail("cookies sent do not match what earlier responses set for this host",
                         {"history": "a response that set a cookie and had a body that could not be %s (%s)"
                          % ("read" if kind == "truncated" else "decoded", first)}, got, ["sid=c-%s" % kind])
        # the connection breaks while the body is being read (also of an error reply): the caller is not handed a
        # cut-off body as if it were the reply
        for status in (200, 500):
            for cut in (0, 5, 40):
                body = b"<r>" + b"x" * 100 + b"</r>"
                srv.httpd.plan = lambda h, status=status, cut=cut, body=body: {"status": status, "body": body,
                                                                                "truncate_after": cut}
                ctx.case(("truncated", status, cut), True)
                try:
                    r = t.send(suds.transport.Request(srv.url(), b"<m/>"))
                    ctx.fail("a reply whose body was cut off by a broken connection was returned as the reply",
                             {"status": status, "bytes_before_break": cut}, None if r is None else r.message[:60],
                             "an exception")
                except suds.transport.TransportError as e:
                    try:
                        got = e.fp.read() if e.fp else b""
                    except Exception:
                        got = b""          # reading the error body hits the broken connection: still an exception
                    if status == 200 or got not in (b"", body[:cut]):
                        ctx.fail("a broken connection was reported as an HTTP error with a made-up body",
                                 {"status": status, "bytes_before_break": cut}, [e.httpcode, got[:60]], "an exception")
                except Exception:
                    pass
        del srv.httpd.seen[:]
        for bad in ["http://127.0.0.1:%d/é" % srv.port, "http://рф/x", b"http://127.0.0.1/\xc3\xa9",
                    # (white space outside ASCII is outside ASCII)
                    "\u00a0http://127.0.0.1:%d/x" % srv.port, "http://127.0.0.1:%d/x\u3000" % srv.port,
                    "\u2028http://127.0.0.1:%d/x\u2029" % srv.port, "http://127.0.0.1:%d/x\x85" % srv.port]:
            ctx.case(("nonascii", repr(bad)), True)
            try:
                suds.transport.Request(bad, b"<m/>")
                ctx.fail("non-ASCII URL accepted", {"url": repr(bad)}, "accepted", "UnicodeError")
            except UnicodeError:
                pass
        if srv.httpd.seen:
            ctx.fail("I/O happened for a rejected URL", {}, len(srv.httpd.seen), 0)
    finally:
        srv.close()
    ctx.sample({"exchange": "65536 random bytes, Content-Encoding: gzip, response deflate"})
    ctx.sample({"credentials": ["ü", "p:w:d"]})


def widen(ctx):
    ctx.tier = "thorough"
    run(ctx)


def witness(ctx, k):
    import suds.transport
    import suds.transport.http
    w = k["witness"]
    srv = Server()
    try:
        if w.get("kind") == "coding-label-case":
            body = b"<r>payload</r>"
            srv.httpd.plan = lambda h: {"status": 200, "body": gzip.compress(body),
                                        "headers": [("Content-Encoding", w["response_label"])]}
            req = suds.transport.Request(srv.url(), b"<m>request</m>")
            req.headers = {w["request_name"]: "gzip"}
            reply = suds.transport.http.HttpTransport().send(req)
            try:
                sent_ok = gzip.decompress(srv.httpd.seen[-1]["body"]) == b"<m>request</m>"
            except Exception:
                sent_ok = False
            return reply.message != body or not sent_ok
        t = suds.transport.http.HttpAuthenticated(username=w["user"], password=w["password"])
        t.send(suds.transport.Request(srv.url(), b"<m/>"))
        auth = hdr(srv.httpd.seen[-1], "Authorization")[0][6:]
        try:
            raw = base64.b64decode(auth, validate=True).decode("utf-8")
        except Exception:
            return True
        return raw != "%s:%s" % (w["user"], w["password"])
    finally:
        srv.close()


def replay(ctx, payload):
    return {"fails": bool(payload.get("failure")), "recorded": payload.get("failure")}
