"""C16 - Plugins run in order, once per stage, and later stages see their edits."""
import itertools

from harness import common, wsdlkit, xmlread
from harness.props import c09

ID = "C16"
LEAN_MODULES = ["SudsModel.Props.C16"]
RULE = ("plugin lists up to length 3 (4 thorough) over kinds {init, document, message} x subsets of overridden hooks "
        "(all single-hook and full plugins exhaustively, other subsets sampled) x every order; each hook logs its "
        "call and applies an order-revealing edit; x nosend/retxml/faults x reply classes {normal, fault, empty, "
        "non-200 status, 202}; the hook log, the bytes at the recording transport and the returned value are "
        "compared with the model; one plugin raising at each stage; non-trivial = at least two plugins of the same "
        "kind or a reply that stops the pipeline early; distinct = distinct (plugin list, setting, reply)"
        ' ; plus: plugins deriving from several plugin classes, hooks raising TransportError'
        ' ; hook methods defined on the plugin class, a base class, a mixin or the instance'
        ' ; pretty-printed requests; plugin objects that compare equal'
        ' ; plugin lists that change while in use (self-removal during a stage, a received hook blanking the reply, plugins replaced before a RequestContext gets its reply)'
        " ; an init plugin's edit of the WSDL is what the client is built from; document hooks get the URL with its fragment"
        ' ; Reply codes and content-less errors from the transport; hook edits and the document cache'
        ' ; hook return values; the doctor over several schemas; the bytes handed to the first received hook'
        ' ; I/O-family errors raised by hooks')
ASSUMPTIONS = []
PARTIAL = []
TRUSTED = []

MSG_HOOKS = ["marshalled", "sending", "received", "parsed", "unmarshalled"]
DOC_HOOKS = ["loaded", "parsed"]
KIND_CLASS = {"message": "MessagePlugin", "document": "DocumentPlugin", "init": "InitPlugin",
              "multi": "InitPlugin+DocumentPlugin+MessagePlugin"}


class Boom(Exception):
    pass


EXC_CLASSES = {"Boom": None, "AttributeError": AttributeError, "TypeError": TypeError, "KeyError": KeyError,
               "ValueError": ValueError, "RuntimeError": RuntimeError, "TransportError": "suds.transport",
               # (errors of the I/O family raised by a hook are the hook's errors too: they reach the caller)
               "OSError": OSError, "ConnectionResetError": ConnectionResetError, "TimeoutError": TimeoutError,
               "FileNotFoundError": FileNotFoundError}


def expand(spec):
    """One object deriving from several plugin classes takes part in each of their domains, at its position in the
    list. -> (single-kind plugin list for the model, index of the original plugin for each entry)"""
    out, orig = [], []
    for i, (k, hs) in enumerate(spec):
        if k != "multi":
            out.append({"kind": KIND_CLASS[k], "hooks": hs})
            orig.append(i)
            continue
        for kind, pool in (("init", ["initialized"]), ("document", DOC_HOOKS), ("message", MSG_HOOKS)):
            out.append({"kind": KIND_CLASS[kind], "hooks": [h for h in pool if h in hs]})
            orig.append(i)
    return out, orig


def make_plugin(kind, hooks, idx, log, raise_at=None, exc="Boom", seen=None):
    import suds.plugin
    base = {"message": (suds.plugin.MessagePlugin,), "document": (suds.plugin.DocumentPlugin,),
            "init": (suds.plugin.InitPlugin,),
            "multi": (suds.plugin.InitPlugin, suds.plugin.DocumentPlugin, suds.plugin.MessagePlugin)}[kind]
    ns = {}
    plugin_kind = kind

    def mk(hook):
        def fn(self, context):
            log.append((idx, hook, getattr(context, "url", None)))
            if raise_at == hook:
                if exc == "TransportError":
                    import suds.transport
                    raise suds.transport.TransportError("BOOM %d:%s" % (idx, hook), 403)
                raise (EXC_CLASSES.get(exc) or Boom)("BOOM %d:%s" % (idx, hook))
            kind = plugin_kind
            if kind == "multi":
                # which domain is calling: document contexts carry the url, init contexts the wsdl
                kind = "document" if hasattr(context, "url") else "init" if hasattr(context, "wsdl") else "message"
            if kind == "message":
                if hook == "marshalled":
                    context.envelope.set("mk%d" % idx, str(len([l for l in log if l[1] == "marshalled"])))
                elif hook == "sending":
                    context.envelope = context.envelope + ("<!--s%d-->" % idx).encode()
                elif hook == "received":
                    if seen is not None:
                        seen.append(context.reply)
                    if context.reply:
                        context.reply = context.reply.replace(b"</r>", b"+r%d</r>" % idx)
                elif hook == "parsed":
                    if context.reply is not None:
                        for n in context.reply.branch() if hasattr(context.reply, "branch") else []:
                            pass
                        root = context.reply.root() if hasattr(context.reply, "root") else context.reply
                        for n in root.branch():
                            if n.name in ("r", "faultstring") and n.text is not None:
                                n.setText(str(n.text) + "+p%d" % idx)
                elif hook == "unmarshalled":
                    context.reply = "%s+u%d" % (context.reply, idx)
            elif kind == "document" and hook == "loaded":
                context.document = context.document + ("<!--l%d-->" % idx).encode()
            # (what a hook returns means nothing: the next plugin's hook runs all the same)
            return [None, context, True, 0, "done"][(idx + len(hook)) % 5]
        return fn
    for h in hooks:
        ns[h] = mk(h)
    # where the hook methods live does not matter: on the plugin's class, on a base class of it, on a mixin, or
    # on the instance
    _STYLE[0] += 1
    style = _STYLE[0] % 5
    if style == 4 and ns:
        # a plugin object that is falsy (an empty container that is also a plugin) is a plugin all the same
        return type("P%d" % idx, (list,) + base, ns)()
    if _STYLE[0] % 7 == 3 and ns:
        # plugin objects that compare equal to one another (a value-like __eq__) are still separate plugins
        ns = dict(ns, __eq__=lambda self, other: hasattr(other, "__class__") and type(other).__name__.startswith("P"),
                  __hash__=lambda self: 7)
    if style == 0 or not ns:
        return type("P%d" % idx, base, ns)()
    if style == 1:
        return type("P%d" % idx, (type("Base%d" % idx, base, ns),), {})()
    if style == 2:
        names = sorted(ns)
        mixin = type("Mixin%d" % idx, (object,), {n: ns[n] for n in names[::2]})
        return type("P%d" % idx, (mixin,) + base, {n: ns[n] for n in names[1::2]})()
    inst = type("P%d" % idx, base, {})()
    for n, fn in ns.items():
        setattr(inst, n, fn.__get__(inst))
    return inst


_STYLE = [0]


def plugin_specs(ctx):
    """Lists of (kind, hooks)."""
    rng = ctx.rng
    singles = [("message", [h]) for h in MSG_HOOKS] + [("message", list(MSG_HOOKS)), ("message", [])] + \
              [("document", [h]) for h in DOC_HOOKS] + [("document", list(DOC_HOOKS))] + \
              [("init", ["initialized"]), ("init", []), ("multi", ["initialized", "loaded"] + MSG_HOOKS)]
    out = [[]]
    maxlen = ctx.pick(2, 3)
    for n in range(1, maxlen + 1):
        for t in itertools.product(singles, repeat=n):
            out.append(list(t))
    for _ in range(ctx.pick(1200, 8000)):
        n = rng.randint(2, ctx.pick(3, 4))
        lst = []
        for _i in range(n):
            k = rng.choice(["message", "message", "document", "init", "multi"])
            pool = {"message": MSG_HOOKS, "document": DOC_HOOKS, "init": ["initialized"],
                    "multi": ["initialized", "loaded"] + MSG_HOOKS}[k]
            lst.append((k, [h for h in pool if rng.random() < 0.55]))
        out.append(lst)
    return out


REPLIES = [("normal", None), ("fault11", 500), ("fault12", None), ("empty", None), ("normal", 404), ("empty", 202),
           ("malformed", None), ("normal", 500), ("empty", 500), ("empty", 404), ("fault11", None)]


def run(ctx):
    import suds
    rng = ctx.rng
    w = c09.make_wsdl("wrapped")
    specs = plugin_specs(ctx)
    if len(specs) > ctx.pick(3000, 30000):
        head = specs[:400]
        specs = head + rng.sample(specs[400:], ctx.pick(2600, 29000))
    reqs, reals, metas, origs = [], [], [], []
    for spec in specs:
        for _ in range(ctx.pick(2, 3)):
            body, status = rng.choice(REPLIES)
            nosend = rng.random() < 0.15
            retxml = rng.random() < 0.3
            faults = rng.random() < 0.7
            raise_at = None
            if rng.random() < 0.2 and spec:
                ri = rng.randrange(len(spec))
                if spec[ri][1]:
                    raise_at = (ri, rng.choice(spec[ri][1]), rng.choice(sorted(EXC_CLASSES)))
            log = []
            seen_bytes = []
            plugins = [make_plugin(k, hs, i, log, raise_at[1] if raise_at and raise_at[0] == i else None,
                                   raise_at[2] if raise_at else "Boom", seen=seen_bytes)
                       for i, (k, hs) in enumerate(spec)]
            data = c09.body_bytes(body, "wrapped")
            te = None
            if status is None:
                # (a reply a transport returns counts as a success whatever code the Reply object carries)
                reply = suds.transport.Reply(rng.choice([200, 200, 202, 204, 500, 404]), {}, data)
            else:
                import io
                # (an error without content: no file object at all, or an empty one)
                reply = suds.transport.TransportError("err", status, None if not data and rng.random() < 0.5 else
                                                      io.BytesIO(data))
            tr = wsdlkit.RecordingTransport(reply=reply)
            outcome = None
            ctor_log_len = 0
            try:
                c = wsdlkit.client(w, plugins=plugins, transport=tr, nosend=nosend, retxml=retxml, faults=faults,
                                   prettyxml=rng.random() < 0.3)
                ctor_log_len = len(log)
                try:
                    r = c.service.f("x")
                    outcome = ("ret", r)
                except Exception as e:
                    if "BOOM " in str(e):
                        outcome = ("boom", str(e).strip("'").replace("BOOM ", ""), type(e).__name__)
                    else:
                        outcome = ("exc", type(e).__name__,
                                   str(getattr(getattr(e, "fault", None), "faultstring", None)))
            except Exception as e:
                if "BOOM " not in str(e):
                    raise
                outcome = ("ctor-boom", str(e).strip("'").replace("BOOM ", ""), type(e).__name__)
                ctor_log_len = len(log)
            meta = {"plugins": [{"kind": KIND_CLASS[k], "hooks": hs} for k, hs in spec], "body": body, "status": status,
                    "nosend": nosend, "retxml": retxml, "faults": faults, "raise_at": raise_at}
            expanded, orig = expand(spec)
            origs.append(orig)
            reqs.append({"op": "plugin.log", "plugins": expanded,
                         "reply": None if nosend else {"status": status, "body": body}, "retxml": retxml})
            if seen_bytes and seen_bytes[0] != data:
                ctx.fail("the bytes the transport delivered are not what the first received hook is handed",
                         {"plugins": [{"kind": KIND_CLASS[k], "hooks": hs} for k, hs in spec], "body": body, "status": status},
                         repr(seen_bytes[0])[:120], repr(data)[:120])
            reals.append((list(log), ctor_log_len, outcome, tr.sent[-1]["message"] if tr.sent else None))
            metas.append(meta)
    answers = ctx.driver.ask(reqs)
    for meta, (log, nctor, outcome, sent), ans, orig in zip(metas, reals, answers, origs):
        if ans is not None:
            ans = dict(ans)
            for key in ("openFetched", "init", "invoke"):
                ans[key] = [[orig[i], h] for i, h in ans[key]]
        nontrivial = len(meta["plugins"]) >= 2 or meta["body"] != "normal" or meta["status"] is not None
        ctx.case(common.digest(meta), nontrivial)
        ctx.dist["outcome=" + outcome[0]] += 1
        if ans is None:
            continue
        # expected logs; when a hook raises the log stops right there
        exp_ctor = [[i, h, "suds://main.wsdl"] for i, h in ans["openFetched"]] + [[i, h, None] for i, h in ans["init"]]
        exp_inv = [[i, h, None] for i, h in ans["invoke"]]
        ra = meta["raise_at"]
        expected_boom = None
        full = exp_ctor + exp_inv
        if ra is not None:
            for k, (i, h, _u) in enumerate(full):
                if i == ra[0] and h == ra[1]:
                    full = full[:k + 1]
                    expected_boom = "%d:%s" % (i, h)
                    break
        real_log = [list(x) for x in log]
        ok = ctx.compare("hook-log", meta, real_log, full)
        if not ok:
            ctx.fail("hook calls differ from the documented order/once-per-stage rule", meta, real_log, full)
            continue
        if expected_boom is not None:
            if outcome[0] not in ("boom", "ctor-boom") or outcome[1] != expected_boom or outcome[2] != ra[2]:
                ctx.fail("an exception raised by a hook did not reach the caller unchanged", meta,
                         [str(x)[:60] for x in outcome[:3]], [expected_boom, ra[2]])
            continue
        # data flow
        inv = ans["invoke"]
        msg = lambda hook: [i for i, h in inv if h == hook]
        if sent is not None or meta["nosend"]:
            env = sent
            if meta["nosend"] and outcome[0] == "ret":
                env = outcome[1].envelope
            if env is not None:
                suffix = "".join("<!--s%d-->" % i for i in msg("sending")).encode()
                if not env.endswith(suffix) or env.count(b"<!--s") != len(msg("sending")):
                    ctx.fail("bytes handed to the transport are not what the sending hooks returned", meta,
                             env[-80:].decode("utf-8", "replace"), suffix.decode())
                try:
                    root = xmlread.parse(env)
                    got = sorted((k[1], v) for k, v in root["attrs"].items() if k[1].startswith("mk"))
                    exp = sorted(("mk%d" % i, str(n + 1)) for n, i in enumerate(msg("marshalled")))
                    if got != exp:
                        ctx.fail("serialized envelope is not the tree left by the marshalled hooks", meta, got, exp)
                except xmlread.XmlError as e:
                    ctx.fail("request not well-formed", meta, str(e), "well-formed")
        if outcome[0] == "ret" and not meta["nosend"] and meta["body"] == "normal" and meta["status"] is None:
            val = "hello" + "".join("+r%d" % i for i in msg("received"))
            if meta["retxml"]:
                r = outcome[1]
                if not isinstance(r, bytes) or (val.encode() not in r):
                    ctx.fail("retxml result is not the bytes returned by the received hooks", meta, repr(r)[:120], val)
            else:
                val += "".join("+p%d" % i for i in msg("parsed")) + "".join("+u%d" % i for i in msg("unmarshalled"))
                r = outcome[1]
                if not meta["faults"]:
                    r = r[1] if isinstance(r, tuple) and r[0] == 200 else ("bad-pair", r)
                if str(r) != val:
                    ctx.fail("returned value does not reflect the hook edits in stage order", meta, str(r), val)
        # a fault reply is decoded from the tree the parsed hooks left
        if meta["body"] == "fault11" and not meta["nosend"] and not meta["retxml"] and outcome[0] in ("exc", "ret"):
            base = "boom" if meta["status"] == 500 else None
            fs = None
            if outcome[0] == "exc" and outcome[1] == "WebFault":
                fs = outcome[2]
            elif outcome[0] == "ret" and isinstance(outcome[1], tuple) and len(outcome[1]) == 2:
                fs = str(getattr(outcome[1][1], "faultstring", None))
            if fs is not None and fs != "None":
                edits = "".join("+p%d" % i for i in msg("parsed"))
                if not fs.endswith(edits) or fs.count("+p") != len(msg("parsed")):
                    ctx.fail("the fault handed to the caller is not decoded from the tree the parsed hooks left", meta,
                             fs, "<faultstring>" + edits)
    # document hooks over a two-document load and a warm document cache
    doc_checks(ctx)
    dynamic_plugin_lists(ctx)
    init_edits_and_fragment_urls(ctx)
    ctx.sample(metas[min(50, len(metas) - 1)])
    ctx.sample(metas[-1])


def doc_checks(ctx):
    import suds.store
    import suds.client
    import suds.cache
    import tempfile
    import shutil
    inc = ('<xsd:schema xmlns:xsd="http://www.w3.org/2001/XMLSchema" targetNamespace="urn:inc">'
           '<xsd:element name="e" type="xsd:string"/></xsd:schema>').encode()
    w = wsdlkit.wsdl_doc('<xsd:import namespace="urn:inc" schemaLocation="suds://inc.xsd"/>'
                         '<xsd:element name="f" type="xsd:string"/>', "f", None)
    for order in (("document", "document"), ("document", "message", "document")):
        log = []
        plugins = [make_plugin(k, DOC_HOOKS if k == "document" else MSG_HOOKS, i, log) for i, k in enumerate(order)]
        c = wsdlkit.client(w, extra_docs={"inc.xsd": inc}, plugins=plugins)
        docs = [i for i, k in enumerate(order) if k == "document"]
        exp = []
        for url in ("suds://main.wsdl", "suds://inc.xsd"):
            exp += [(i, "loaded", url) for i in docs] + [(i, "parsed", url) for i in docs]
        ctx.case(("doc", order), True)
        if log != exp:
            ctx.fail("document hooks: not once per fetched/opened document in order", {"order": order}, log, exp)
    # a document plugin registered after an ImportDoctor still gets the document root and its edits reach the loader
    import suds.xsd.doctor
    import suds.plugin

    class Renamer(suds.plugin.DocumentPlugin):
        def __init__(self):
            self.roots = []

        def parsed(self, context):
            self.roots.append(context.document.name)
            for n in context.document.branch():
                if n.name == "element" and n.get("name") == "f":
                    n.set("name", "g")

    doctor = suds.xsd.doctor.ImportDoctor(suds.xsd.doctor.Import("urn:nowhere"))
    ren = Renamer()
    ctx.case(("doc", "doctor-then-plugin"), True)
    try:
        c = wsdlkit.client(w.replace(b'element="x:f"', b'element="x:g"'), extra_docs={"inc.xsd": inc},
                           plugins=[doctor, ren])
        seen_roots = ren.roots
    except Exception as e:
        seen_roots = "%s: %s" % (type(e).__name__, e)
    if seen_roots != ["definitions", "schema"]:
        ctx.fail("a document plugin registered after the ImportDoctor does not get each opened document's root "
                 "(or its edit did not reach the loader)", {"order": ["ImportDoctor", "DocumentPlugin"]}, seen_roots,
                 ["definitions", "schema"])
    # the ImportDoctor treats every schema of a document (a WSDL may hold several), and a plugin after it sees them all
    two = wsdlkit.wsdl_doc('<xsd:element name="f" type="xsd:string"/>', "f", None, extra_schemas=(
        '<xsd:schema xmlns:xsd="http://www.w3.org/2001/XMLSchema" targetNamespace="urn:second"><xsd:element name="s2" '
        'type="xsd:string"/></xsd:schema><xsd:schema xmlns:xsd="http://www.w3.org/2001/XMLSchema" '
        'targetNamespace="urn:third"><xsd:element name="s3" type="xsd:string"/></xsd:schema>'))

    class Counter(suds.plugin.DocumentPlugin):
        def __init__(self):
            self.found = []

        def parsed(self, context):
            for n in context.document.branch():
                if n.name == "schema":
                    self.found.append([n.get("targetNamespace"), sorted(c.get("namespace") for c in n.getChildren("import"))])
    cnt = Counter()
    ctx.case(("doc", "doctor-over-several-schemas"), True)
    try:
        wsdlkit.client(two, plugins=[suds.xsd.doctor.ImportDoctor(suds.xsd.doctor.Import("urn:doctored")), cnt])
        got = sorted(cnt.found)
    except Exception as e:
        got = "%s: %s" % (type(e).__name__, e)
    want = sorted([[tns_, ["urn:doctored"]] for tns_ in (wsdlkit.TNS, "urn:second", "urn:third")])
    if got != want:
        ctx.fail("the ImportDoctor's edit did not reach every schema of the document (or the plugin after it did not "
                 "see it)", {"order": ["ImportDoctor", "DocumentPlugin"], "schemas": 3}, got, want)
    # warm document cache: parsed fires per opened document, loaded does not (nothing is fetched)
    d = tempfile.mkdtemp(prefix="verif-c16-")
    try:
        for round_ in (0, 1):
            log = []
            plugins = [make_plugin("document", DOC_HOOKS, 0, log)]
            store = suds.store.DocumentStore()
            store.update({"main.wsdl": w, "inc.xsd": inc})
            suds.client.Client("suds://main.wsdl", documentStore=store, plugins=plugins,
                               cache=suds.cache.DocumentCache(location=d), cachingpolicy=0)
            hooks = [(h, u) for _i, h, u in log]
            if round_ == 0:
                exp = [("loaded", "suds://main.wsdl"), ("parsed", "suds://main.wsdl"),
                       ("loaded", "suds://inc.xsd"), ("parsed", "suds://inc.xsd")]
            else:
                exp = [("parsed", "suds://main.wsdl"), ("parsed", "suds://inc.xsd")]
            ctx.case(("doc-cache", round_), True)
            if hooks != exp:
                ctx.fail("document hooks with a %s cache" % ("cold" if round_ == 0 else "warm"), {"round": round_},
                         hooks, exp)
        # what a parsed hook did to the tree it was handed is that client's: the cache keeps the document as fetched, so
        # the hook of a later client over the warm cache gets the unedited document (and a client without plugins too)
        d2 = tempfile.mkdtemp(prefix="verif-c16-")
        try:
            class Marking(suds.plugin.DocumentPlugin):
                def __init__(self):
                    self.found = []

                def parsed(self, context):
                    self.found.append([context.url, context.document.get("verifmark")])
                    context.document.set("verifmark", "edited")
            found = []
            for round_ in (0, 1, 2):
                mk = Marking()
                store = suds.store.DocumentStore()
                store.update({"main.wsdl": w, "inc.xsd": inc})
                suds.client.Client("suds://main.wsdl", documentStore=store, plugins=[mk] if round_ != 1 else [],
                                   cache=suds.cache.DocumentCache(location=d2), cachingpolicy=0)
                found.append(mk.found)
            ctx.case(("doc-cache-edits",), True)
            exp = [[["suds://main.wsdl", None], ["suds://inc.xsd", None]], [], [["suds://main.wsdl", None], ["suds://inc.xsd", None]]]
            if found != exp:
                ctx.fail("document hooks with a warm cache: the parsed hook is handed a document an earlier client's hook "
                         "had edited", {"stream": "doc-cache-edits"}, found, exp)
        finally:
            shutil.rmtree(d2, ignore_errors=True)
    finally:
        shutil.rmtree(d, ignore_errors=True)
    # warm OBJECT cache (cachingpolicy=1): the init stage runs for every client built, each with its own plugins, and
    # what one client's plugin did to the loaded WSDL is not handed to the next client
    d = tempfile.mkdtemp(prefix="verif-c16-")
    try:
        seen = []
        for round_ in (0, 1, 2):
            log = []

            class Marker(suds.plugin.InitPlugin):
                def initialized(self, context, round_=round_):
                    seen.append((round_, getattr(context.wsdl, "verif_mark", None)))
                    context.wsdl.verif_mark = round_
            plugins = [make_plugin("init", ["initialized"], 0, log), Marker()]
            store = suds.store.DocumentStore()
            store.update({"main.wsdl": w, "inc.xsd": inc})
            suds.client.Client("suds://main.wsdl", documentStore=store, plugins=plugins,
                               cache=suds.cache.ObjectCache(location=d), cachingpolicy=1)
            ctx.case(("object-cache-init", round_), True)
            if [h for _i, h, _u in log] != ["initialized"]:
                ctx.fail("the init stage does not run once for a client built over a %s object cache"
                         % ("cold" if round_ == 0 else "warm"), {"round": round_}, [h for _i, h, _u in log], ["initialized"])
        if seen != [(0, None), (1, None), (2, None)]:
            ctx.fail("an init plugin's edit of one client's WSDL reached a later client through the object cache",
                     {"stream": "object-cache-init"}, seen, [(0, None), (1, None), (2, None)])
    finally:
        shutil.rmtree(d, ignore_errors=True)


def dynamic_plugin_lists(ctx):
    """The plugins of a stage are the ones configured when the stage runs, each called once: (a) a plugin that takes
    itself off the list during a stage does not make the next one lose its turn; (b) a received hook that blanks the
    reply is obeyed (the reply is then empty, not the transport's bytes); (c) plugins changed between building a
    request (nosend) and handing the reply to its RequestContext: the reply stages go to the current plugins."""
    import suds.plugin
    w = c09.make_wsdl("wrapped")
    normal = c09.body_bytes("normal", "wrapped")
    log = []

    class OneShot(suds.plugin.MessagePlugin):
        def __init__(self, lst):
            self.lst = lst

        def marshalled(self, context):
            log.append("oneshot.marshalled")
            if self in self.lst:
                self.lst.remove(self)

    class Tail(suds.plugin.MessagePlugin):
        def __init__(self, name):
            self.name = name

        def marshalled(self, context):
            log.append(self.name + ".marshalled")

        def received(self, context):
            log.append(self.name + ".received")

    lst = []
    lst.extend([OneShot(lst), Tail("t1"), Tail("t2")])
    c = wsdlkit.client(w, plugins=lst, transport=wsdlkit.RecordingTransport(reply=suds.transport.Reply(200, {}, normal)))
    ctx.case(("dynamic-plugins", "self-removal"), True)
    c.service.f("x")
    first = list(log)
    del log[:]
    c.service.f("x")
    second = list(log)
    want1 = ["oneshot.marshalled", "t1.marshalled", "t2.marshalled", "t1.received", "t2.received"]
    want2 = ["t1.marshalled", "t2.marshalled", "t1.received", "t2.received"]
    if first != want1 or second != want2:
        ctx.fail("a plugin that takes itself off the list during a stage made another plugin lose its turn",
                 {"stream": "dynamic-plugins"}, [first, second], [want1, want2])

    class Blank(suds.plugin.MessagePlugin):
        def received(self, context):
            context.reply = b""
    for retxml in (False, True):
        ctx.case(("dynamic-plugins", "blanked-reply", retxml), True)
        c2 = wsdlkit.client(w, plugins=[Blank()], retxml=retxml,
                            transport=wsdlkit.RecordingTransport(reply=suds.transport.Reply(200, {}, normal)))
        try:
            got = c2.service.f("x")
        except Exception as e:
            got = repr(e)
        if got not in (None, b""):
            ctx.fail("a received hook that blanks the reply is not obeyed", {"stream": "dynamic-plugins", "retxml": retxml},
                     repr(got)[:200], "None (an empty reply)")
    del log[:]
    ctx.case(("dynamic-plugins", "changed-before-reply"), True)
    c3 = wsdlkit.client(w, plugins=[Tail("old")], nosend=True)
    rc = c3.service.f("x")
    c3.set_options(plugins=[Tail("new")])
    try:
        rc.process_reply(normal)
    except Exception as e:
        log.append(repr(e))
    if log != ["old.marshalled", "new.received"]:
        ctx.fail("the reply stages of a request built earlier do not go to the plugins configured now",
                 {"stream": "dynamic-plugins"}, list(log), ["old.marshalled", "new.received"])


def init_edits_and_fragment_urls(ctx):
    """(a) what an init plugin does to the loaded WSDL is what the client is then built from (its service selector and
    service definitions see the edit); (b) document hooks are given the URL the document was asked for under -
    fragment included."""
    import io
    import suds.client
    import suds.plugin
    import suds.transport
    from harness.props import c10
    w2 = c10.make_wsdl([("S1", [("P1", "B1")]), ("S2", [("P1", "B2")])])

    class DropSecond(suds.plugin.InitPlugin):
        def initialized(self, context):
            del context.wsdl.services[1:]
    ctx.case(("init-edit",), True)
    try:
        c = wsdlkit.client(w2, plugins=[DropSecond()], nosend=True)
        facts = [len(c.sd), [sd.service.name for sd in c.sd]]
        try:
            c.service["S2"]
            facts.append("S2 selectable")
        except Exception as e:
            facts.append(type(e).__name__)
    except Exception as e:
        facts = repr(e)
    if facts != [1, ["S1"], "PortNotFound"]:
        ctx.fail("the client was not built from the WSDL as the init plugins left it", {"stream": "init-edit"}, facts,
                 [1, ["S1"], "PortNotFound"])
    inc = ('<xsd:schema xmlns:xsd="http://www.w3.org/2001/XMLSchema" targetNamespace="urn:inc">'
           '<xsd:element name="e" type="xsd:string"/></xsd:schema>').encode()
    main = wsdlkit.wsdl_doc('<xsd:import namespace="urn:inc" schemaLocation="http://docs.invalid/inc.xsd#part2"/>'
                            '<xsd:element name="f" type="xsd:string"/>', "f", None)
    seen = []

    class Urls(suds.plugin.DocumentPlugin):
        def loaded(self, context):
            seen.append(("loaded", context.url))

        def parsed(self, context):
            seen.append(("parsed", context.url))

    class T(suds.transport.Transport):
        def open(self, request):
            return io.BytesIO(main if "main.wsdl" in request.url else inc)

        def send(self, request):
            raise AssertionError("no send")
    ctx.case(("fragment-url",), True)
    try:
        suds.client.Client("http://docs.invalid/main.wsdl#top", transport=T(), cache=None, plugins=[Urls()])
    except Exception as e:
        seen.append(("error", repr(e)))
    want = [("loaded", "http://docs.invalid/main.wsdl#top"), ("parsed", "http://docs.invalid/main.wsdl#top"),
            ("loaded", "http://docs.invalid/inc.xsd#part2"), ("parsed", "http://docs.invalid/inc.xsd#part2")]
    if seen != want:
        ctx.fail("document hooks are not given the URL the document was asked for under", {"stream": "fragment-url"},
                 seen, want)


def widen(ctx):
    ctx.tier = "thorough"
    run(ctx)


def replay(ctx, payload):
    return {"fails": bool(payload.get("failure")), "recorded": payload.get("failure")}
