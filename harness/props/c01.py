"""C01 - Requests conform to the WSDL and schema they were built from."""
import random

from harness import common, wsdlkit, xmlread
from harness import iface as IF, ifacecheck as K, schemamodel as SM

ID = "C01"
LEAN_MODULES = ["SudsModel.Props.C01"]
RULE = ("generated interface family (1..3 target namespaces, nested sequence/choice/all, groups, attribute groups, "
        "extension chains across namespaces, element refs, qualified/unqualified forms, recursive members; every "
        "fifth interface rpc/encoded with section-5 arrays) x every operation (wrapped, bare, rpc/literal, "
        "rpc/encoded) x schema-conforming argument trees (builtin leaves of 8 XSD types, None, lists 0..3, nested "
        "objects, derived-type substitutions, attributes) passed as keyword dicts, as factory objects and by position; the bytes "
        "handed to the transport are read by an independent expat-based infoset reader and matched against the "
        "reference translator (iface.spec_request) and against the Lean marshaller model; non-trivial = every "
        "(interface, operation, arguments, passing mode); distinct = distinct of those"
        ' ; plus dedicated streams: elements with default / nillable / lists with None items, untyped rpc/encoded leaves with integers of every magnitude, attributes named type / nil on a derived-type object, restricted simple types (two levels), two ports with a same-named operation, a bare part of a consolidated schema block (D48), family requests with prefixes=False; every request: an xsi:nil element is empty'
        ' ; float/double elements, list items and attributes given INF, -INF, NaN and the extremes'
        ' ; a name shared by an inherited attribute and an element (each written by its own declaration)'
        ' ; header lists mixing Elements and values; tuples for repeated elements'
        ' ; the foreign-typed wrapper stream shared with C08'
        ' ; the same raw Element argument given to several requests; blocks that bind nothing to their own namespace'
        ' ; unprefixed namespaces for body and header, same-named locals with different anonymous types, simpleContent derivations'
        ' ; anyType parts under rpc/encoded'
        ' ; optional groups inside anonymous types; derived types with the base\'s local name; defaults of referenced elements')
ASSUMPTIONS = ["leaf lexical forms are compared by value per XSD type (the translators themselves are C06)",
               "alphabet: a None is passed only where the schema allows absence or nil; a repeating member of "
               "array type (list of lists) and content-free objects are not generated",
               "suds calling convention, not part of the message: a single-part document/literal message with a "
               "complex element is called with the element's members; every rpc part is optional (None or an "
               "empty array leaves the accessor out)"]
PARTIAL = [{"theorem": "request_is_spec (whole-tree refinement marshal = reference translator)", "missing":
            "the reference translator is Python; the Lean theorems state its rules one by one over the model "
            "(order, names, namespaces, skip, nil, xsi:type, arrays) and the correspondence compares whole trees"}]
TRUSTED = ["pyexpat as the independent XML processor", "iface.py renderer and reference translator"]


def run(ctx):
    n_ifaces = ctx.pick(150, 6000)
    cases = ctx.pick(3, 5)
    reqs, metas = [], []
    for ident, I in K.family(ctx, n_ifaces, "C01"):
        K.shape_stats(ctx, I)
        rident = "canonical" if ctx.rng.random() < 0.5 else "r:" + ident
        docs = IF.render(K.rendering_of(rident), I)
        try:
            client = K.make_client(docs)
        except Exception as e:
            ctx.fail("WSDL of the family does not load", {"iface": ident, "rendering": rident}, repr(e), "a client")
            continue
        env = SM.env_json(I)
        client_np = None
        for op in I["ops"]:
            for case in range(cases):
                args = K.args_of(ident, I, op, case)
                for v in args.values():
                    K.value_stats(ctx, v)
                for mode in ("dict", "object", "positional"):
                    meta = {"iface": ident, "rendering": rident, "op": op["name"], "case": case, "mode": mode}
                    ctx.case(common.canon(meta), True)
                    ctx.dist["style=" + op["style"]] += 1
                    one(ctx, client, I, op, args, mode, meta, env, reqs, metas)
                if case == 0:
                    # the same message without prefixes (default-namespace style): still the message the WSDL prescribes
                    if client_np is None:
                        client_np = K.make_client(docs, prefixes=False)
                    meta = {"iface": ident, "rendering": rident, "op": op["name"], "case": case, "mode": "object",
                            "prefixes": False}
                    ctx.case(common.canon(meta), True)
                    ctx.dist["prefixes=False"] += 1
                    one(ctx, client_np, I, op, args, "object", meta, env, [], [])
    defaults_and_untyped(ctx)
    special_floats(ctx)
    shared_attribute_element_name(ctx)
    repeated_requests(ctx)
    repeated_raw_element_arguments(ctx)
    encoded_any_parts(ctx)
    optional_groups_and_same_named_derivations(ctx)
    unprefixed_namespaces_twins_and_simple_derivations(ctx)
    from harness.props import c07
    c07.handwritten_renderings(ctx)      # (blocks that name their own namespace by prefix / by default / not at all)
    c07.groups_twice_ref_defaults_and_shared_names(ctx)      # (a referenced element's default is what a None is sent as)
    headers_mixing_elements_and_values(ctx)
    tuples_for_repeated_elements(ctx)
    # a wrapper element whose named type lives in another namespace keeps the element's namespace (shared with C08)
    from harness.props import c08
    c08.repeating_and_foreign_typed_wrappers(ctx)
    answers = ctx.driver.ask(reqs)
    for ans, (meta, actual, spec) in zip(answers, metas):
        model = [SM.canon_info(x) for x in ans] if isinstance(ans, list) else ans
        ctx.compare("marshal-model-vs-suds", meta, actual, model)
        ctx.compare("marshal-model-vs-reference", meta, spec, model)
    if metas:
        ctx.sample({"input": metas[0][0], "body": metas[0][1]})


INT_RANGES = {"byte": 7, "short": 15, "int": 31, "long": 63, "integer": None, "decimal": None, "anyType": None}


def nil_invariant(ctx, meta, env):
    """XSD: an element marked xsi:nil='true' has no content."""
    try:
        root = xmlread.parse(env)
    except xmlread.XmlError:
        return
    for n in xmlread.walk(root):
        if n["attrs"].get((xmlread.XSI, "nil")) in ("true", "1") and (n["children"] or (n.get("text") or "") != ""):
            ctx.fail("an element marked xsi:nil carries content", meta, [n["name"], n.get("text")], "an empty element")


def reserved_attr_names():
    """-> None when a derived-type object with attributes called 'type' and 'nil' is sent with those attributes AND
    xsi:type naming the derived type; else what was sent."""
    schema = ('<xsd:complexType name="B"><xsd:sequence><xsd:element name="a" type="xsd:string"/></xsd:sequence>'
              '<xsd:attribute name="type" type="xsd:string"/><xsd:attribute name="nil" type="xsd:string"/>'
              '</xsd:complexType><xsd:complexType name="D"><xsd:complexContent><xsd:extension base="x:B">'
              '<xsd:sequence><xsd:element name="b" type="xsd:string" nillable="true"/></xsd:sequence></xsd:extension>'
              '</xsd:complexContent></xsd:complexType><xsd:element name="f"><xsd:complexType><xsd:sequence>'
              '<xsd:element name="o" type="x:B"/></xsd:sequence></xsd:complexType></xsd:element>')
    c = wsdlkit.client(wsdlkit.wsdl_doc(schema, "f", None), nosend=True)
    d = c.factory.create("{%s}D" % wsdlkit.TNS)
    d.a, d.b, d._type, d._nil = "1", None, "home", "zz"
    env = wsdlkit.envelope_bytes(c.service.f(d))
    root = xmlread.parse(env)
    o = [n for n in xmlread.walk(root) if n["name"][1] == "o"][0]
    b = [n for n in xmlread.walk(root) if n["name"][1] == "b"][0]
    try:
        xt = xmlread.resolve_qname(o, o["attrs"].get((xmlread.XSI, "type")) or "")
    except xmlread.XmlError:
        xt = None
    ok = (xt is not None and list(xt) == [wsdlkit.TNS, "D"] and o["attrs"].get((None, "type")) == "home"
          and o["attrs"].get((None, "nil")) == "zz" and b["attrs"].get((xmlread.XSI, "nil")) in ("true", "1"))
    return None if ok else env.decode("utf-8")[-400:]


def clobbered_type_prefix():
    """D48 witness. A bare (non-wrapped) part whose global element lives in the SECOND of two schema blocks of one
    namespace, the FIRST block having elementFormDefault="unqualified", the document calling the namespace ns1, and a
    value of a derived type from another namespace: -> None when xsi:type names the derived type, else what it resolved to."""
    X = "http://www.w3.org/2001/XMLSchema"
    w = ('<?xml version="1.0"?><wsdl:definitions targetNamespace="urn:w" xmlns:wsdl="http://schemas.xmlsoap.org/wsdl/" '
         'xmlns:w="urn:w" xmlns:soap="http://schemas.xmlsoap.org/wsdl/soap/"><wsdl:types>'
         '<xsd:schema xmlns:xsd="%s" xmlns:ns1="urn:n0" xmlns:ns2="urn:n1" targetNamespace="urn:n0" '
         'elementFormDefault="unqualified"><xsd:import namespace="urn:n1"/><xsd:complexType name="Base"><xsd:sequence>'
         '<xsd:element name="a" type="xsd:string"/></xsd:sequence></xsd:complexType></xsd:schema>'
         '<xsd:schema xmlns:xsd="%s" xmlns:ns1="urn:n0" xmlns:ns2="urn:n1" targetNamespace="urn:n0" '
         'elementFormDefault="qualified"><xsd:element name="p" '
         'type="ns1:Base"/><xsd:element name="q" type="xsd:string"/></xsd:schema>'
         '<xsd:schema xmlns:xsd="%s" xmlns:ns1="urn:n0" xmlns:ns2="urn:n1" targetNamespace="urn:n1" '
         'elementFormDefault="qualified"><xsd:import namespace="urn:n0"/><xsd:complexType name="Der"><xsd:complexContent>'
         '<xsd:extension base="ns1:Base"><xsd:sequence><xsd:element name="b" type="xsd:string"/></xsd:sequence>'
         '</xsd:extension></xsd:complexContent></xsd:complexType></xsd:schema></wsdl:types>'
         '<wsdl:message name="fIn"><wsdl:part name="p" xmlns:ns1="urn:n0" element="ns1:p"/><wsdl:part name="q" '
         'xmlns:ns1="urn:n0" element="ns1:q"/></wsdl:message><wsdl:portType name="PT"><wsdl:operation name="f">'
         '<wsdl:input message="w:fIn"/></wsdl:operation></wsdl:portType><wsdl:binding name="B" type="w:PT">'
         '<soap:binding style="document" transport="http://schemas.xmlsoap.org/soap/http"/><wsdl:operation name="f">'
         '<soap:operation soapAction="f"/><wsdl:input><soap:body use="literal"/></wsdl:input></wsdl:operation>'
         '</wsdl:binding><wsdl:service name="S"><wsdl:port name="P" binding="w:B"><soap:address '
         'location="http://x.invalid/"/></wsdl:port></wsdl:service></wsdl:definitions>' % (X, X, X)).encode()
    c = wsdlkit.client(w, nosend=True)
    d = c.factory.create("{urn:n1}Der")
    d.a, d.b = "1", "2"
    env = wsdlkit.envelope_bytes(c.service.f(d, "s"))
    try:
        root = xmlread.parse(env)
        node = [n for n in xmlread.walk(root) if n["name"] == ("urn:n0", "p")][0]
        q = xmlread.resolve_qname(node, node["attrs"].get((xmlread.XSI, "type")) or "")
    except Exception as e:
        return "%s: %s" % (type(e).__name__, e)
    return None if tuple(q) == ("urn:n1", "Der") else list(q)


def two_port_wsdl():
    parts = []
    for n, members in (("1", '<xsd:element name="id" type="xsd:string"/><xsd:element name="note" type="xsd:string"/>'),
                       ("2", '<xsd:element name="key" type="xsd:string"/><xsd:element name="flag" type="xsd:boolean"/>')):
        parts.append('<xsd:schema targetNamespace="urn:v%s" elementFormDefault="unqualified"><xsd:element name="submit">'
                     '<xsd:complexType><xsd:sequence>%s</xsd:sequence></xsd:complexType></xsd:element></xsd:schema>'
                     % (n, members))
    w = ('<?xml version="1.0"?><wsdl:definitions targetNamespace="urn:w" xmlns:wsdl="http://schemas.xmlsoap.org/wsdl/" '
         'xmlns:w="urn:w" xmlns:v1="urn:v1" xmlns:v2="urn:v2" xmlns:soap="http://schemas.xmlsoap.org/wsdl/soap/" '
         'xmlns:xsd="http://www.w3.org/2001/XMLSchema"><wsdl:types>%s</wsdl:types>' % "".join(parts))
    for n in ("1", "2"):
        w += ('<wsdl:message name="m%s"><wsdl:part name="parameters" element="v%s:submit"/></wsdl:message>' % (n, n))
    for n in ("1", "2"):
        w += ('<wsdl:portType name="PT%s"><wsdl:operation name="submit"><wsdl:input message="w:m%s"/></wsdl:operation>'
              '</wsdl:portType>' % (n, n))
    for n in ("1", "2"):
        w += ('<wsdl:binding name="B%s" type="w:PT%s"><soap:binding style="document" '
              'transport="http://schemas.xmlsoap.org/soap/http"/><wsdl:operation name="submit"><soap:operation '
              'soapAction="s%s"/><wsdl:input><soap:body use="literal"/></wsdl:input></wsdl:operation></wsdl:binding>'
              % (n, n, n))
    w += ('<wsdl:service name="S"><wsdl:port name="one" binding="w:B1"><soap:address location="http://x.invalid/1"/>'
          '</wsdl:port><wsdl:port name="two" binding="w:B2"><soap:address location="http://x.invalid/2"/></wsdl:port>'
          '</wsdl:service></wsdl:definitions>')
    return w.encode()


def defaults_and_untyped(ctx):
    """Two shapes outside the family. (a) elements with a declared default and/or nillable, given None or a value:
    value -> its text; None -> omitted when optional, else the default text, else xsi:nil when nillable, else an
    empty element. (b) rpc/encoded parts and struct members of type xsd:anyType given Python ints of every
    magnitude: the xsi:type suds picks must be one the text is a valid lexical form of."""
    rng = ctx.rng
    for _ in range(ctx.pick(25, 400)):
        members = []
        for i in range(rng.randint(2, 5)):
            members.append({"name": "e%d" % i, "type": rng.choice(["string", "int"]), "nillable": rng.random() < 0.5,
                            "min": rng.choice([0, 1, 1]), "default": rng.choice([None, None, "7"]),
                            "many": rng.random() < 0.35})
            if members[-1]["many"]:
                members[-1]["default"] = None
        decl = "".join('<xsd:element name="%s" type="xsd:%s"%s%s%s%s/>' % (
            m["name"], m["type"], ' nillable="true"' if m["nillable"] else "", ' minOccurs="0"' if m["min"] == 0 else "",
            ' default="%s"' % m["default"] if m["default"] else "", ' maxOccurs="unbounded"' if m["many"] else "")
            for m in members)
        schema = '<xsd:element name="f"><xsd:complexType><xsd:sequence>%s</xsd:sequence></xsd:complexType></xsd:element>' % decl
        client = wsdlkit.client(wsdlkit.wsdl_doc(schema, "f", None), nosend=True)
        for _c in range(3):
            kw, exp = {}, []
            for m in members:
                if m["many"]:
                    # a list, items may be None: each item is written by the rule of a single value
                    items = [rng.choice([None, "x" if m["type"] == "string" else 12]) for _k in range(rng.randint(0, 3))]
                    kw[m["name"]] = items
                    for v in items:
                        if v is not None:
                            exp.append([m["name"], str(v), False])
                        elif m["min"] != 0:
                            exp.append([m["name"], "", m["nillable"]])
                    continue
                v = rng.choice([None, None, "x" if m["type"] == "string" else 12])
                if rng.random() < 0.8:
                    kw[m["name"]] = v
                else:
                    v = None        # not passed at all
                if v is not None:
                    exp.append([m["name"], str(v), False])
                elif m["min"] == 0:
                    pass
                elif m["default"] is not None:
                    exp.append([m["name"], m["default"], False])
                else:
                    exp.append([m["name"], "", m["nillable"]])
            meta = {"stream": "defaults", "members": members, "kwargs": kw}
            ctx.case(common.canon(meta), True)
            ctx.dist["defaults:call"] += 1
            try:
                env = wsdlkit.envelope_bytes(client.service.f(**kw))
                froot = xmlread.find1(xmlread.find1(xmlread.parse(env), "Body"), "f")
                got = [[c["name"][1], c.get("text") or "", c["attrs"].get((xmlread.XSI, "nil")) in ("true", "1")]
                       for c in froot["children"]]
            except Exception as e:
                ctx.fail("request construction failed", meta, repr(e), exp)
                continue
            if got != exp:
                ctx.fail("None / default / nillable members are not written as the schema prescribes", meta, got, exp)
            nil_invariant(ctx, meta, env)
    # (c) attributes whose names coincide with the schema-instance attributes (type, nil) on a derived-type object
    if reserved_attr_names():
        ctx.fail("an attribute named like a schema-instance attribute (type / nil) is not written on its owner next to "
                 "xsi:type / xsi:nil", {"stream": "reserved-attribute-names"}, reserved_attr_names(),
                 "o: xsi:type=D, type='home', nil='zz'; b: xsi:nil")
    ctx.case(("reserved-attribute-names",), True)
    # (d) simple types derived by restriction, one and two levels deep: the text is the base type's lexical form
    import datetime
    rschema = ('<xsd:simpleType name="Flag"><xsd:restriction base="xsd:boolean"/></xsd:simpleType>'
               '<xsd:simpleType name="StrictFlag"><xsd:restriction base="x:Flag"/></xsd:simpleType>'
               '<xsd:simpleType name="When"><xsd:restriction base="xsd:dateTime"/></xsd:simpleType>'
               '<xsd:simpleType name="Later"><xsd:restriction base="x:When"/></xsd:simpleType>'
               '<xsd:element name="f"><xsd:complexType><xsd:sequence><xsd:element name="a" type="x:Flag"/>'
               '<xsd:element name="b" type="x:StrictFlag"/><xsd:element name="c" type="x:When"/>'
               '<xsd:element name="d" type="x:Later"/></xsd:sequence></xsd:complexType></xsd:element>')
    rc = wsdlkit.client(wsdlkit.wsdl_doc(rschema, "f", None), nosend=True)
    when = datetime.datetime(2001, 2, 3, 4, 5, 6)
    meta = {"stream": "restricted-simple-types"}
    ctx.case(common.canon(meta), True)
    try:
        env = wsdlkit.envelope_bytes(rc.service.f(True, False, when, when))
        froot = xmlread.find1(xmlread.find1(xmlread.parse(env), "Body"), "f")
        got = [ch.get("text") for ch in froot["children"]]
    except Exception as e:
        got = repr(e)
    if got != ["true", "false", "2001-02-03T04:05:06", "2001-02-03T04:05:06"]:
        ctx.fail("a value of a simple type derived by restriction is not written in the XSD lexical form", meta, got,
                 ["true", "false", "2001-02-03T04:05:06", "2001-02-03T04:05:06"])
    # (g) values of a complexType with simpleContent (text + attributes) as members, single and repeated: the text is
    #     the element's text and the attributes sit on that element ("attributes on their owner")
    sschema = ('<xsd:complexType name="Money"><xsd:simpleContent><xsd:extension base="xsd:decimal"><xsd:attribute '
               'name="cur" type="xsd:string"/></xsd:extension></xsd:simpleContent></xsd:complexType>'
               '<xsd:complexType name="Order"><xsd:sequence><xsd:element name="total" type="x:Money"/>'
               '<xsd:element name="fee" type="x:Money" minOccurs="0" maxOccurs="unbounded"/></xsd:sequence>'
               '<xsd:attribute name="id" type="xsd:string"/></xsd:complexType><xsd:element name="f"><xsd:complexType>'
               '<xsd:sequence><xsd:element name="o" type="x:Order"/></xsd:sequence></xsd:complexType></xsd:element>')
    sc = wsdlkit.client(wsdlkit.wsdl_doc(sschema, "f", None), nosend=True)
    ctx.case(("simple-content-members",), True)
    try:
        T = "{%s}" % wsdlkit.TNS
        o = sc.factory.create(T + "Order")
        o._id = "o1"
        o.total.value, o.total._cur = 5, "EUR"
        for v, cur in ((1, "USD"), (2, "CHF")):
            m = sc.factory.create(T + "Money")
            m.value, m._cur = v, cur
            o.fee.append(m)
        root = xmlread.parse(wsdlkit.envelope_bytes(sc.service.f(o)))
        onode = [n for n in xmlread.walk(root) if n["name"][1] == "o"][0]
        got = [dict((k[1], v) for k, v in onode["attrs"].items() if k[0] is None)] + \
            [[c["name"][1], c.get("text"), dict((k[1], v) for k, v in c["attrs"].items())] for c in onode["children"]]
    except Exception as e:
        got = repr(e)
    want = [{"id": "o1"}, ["total", "5", {"cur": "EUR"}], ["fee", "1", {"cur": "USD"}], ["fee", "2", {"cur": "CHF"}]]
    if got != want:
        ctx.fail("values with text and attributes are not written as text plus attributes on their own element",
                 {"stream": "simple-content-members"}, got, want)
    # (f) the prefix an xsi:type value uses stays bound when the finished part is qualified (D48)
    ctx.case(("clobbered-type-prefix",), True)
    if clobbered_type_prefix() is not None:
        ctx.fail("xsi:type of a bare part does not name the derived type (its prefix was re-bound when the part was "
                 "qualified)", {"stream": "clobbered-type-prefix"}, clobbered_type_prefix(), ["urn:n1", "Der"])
    # (e) two ports of one service whose port types define a same-named operation with different inputs: a call
    #     through either port builds that port's message, whichever was used first
    for order in (("one", "two"), ("two", "one"), ("two", "two", "one")):
        c = wsdlkit.client(two_port_wsdl(), nosend=True)
        for port in order:
            meta = {"stream": "two-ports", "order": list(order), "port": port}
            ctx.case(common.canon(meta), True)
            try:
                env = wsdlkit.envelope_bytes(c.service[port].submit("k", True))
                b = xmlread.find1(xmlread.parse(env), "Body")
                got = [list(b["children"][0]["name"])] + [[k["name"][1], k.get("text")] for k in b["children"][0]["children"]]
            except Exception as e:
                got = repr(e)
            want = [["urn:v1", "submit"], ["id", "k"], ["note", "True"]] if port == "one" else \
                [["urn:v2", "submit"], ["key", "k"], ["flag", "true"]]
            if got != want:
                ctx.fail("a call through one port builds the message of another port's same-named operation", meta,
                         got, want)
    # (b) untyped leaves in rpc/encoded
    schema = ('<xsd:complexType name="S"><xsd:sequence><xsd:element name="v" type="xsd:anyType"/>'
              '<xsd:element name="w" type="xsd:anyType" minOccurs="0"/></xsd:sequence></xsd:complexType>')
    w = wsdlkit.wsdl_doc(schema, style="rpc", use="encoded",
                         in_parts=[("a", "type", "xsd:anyType"), ("s", "type", "x:S")])
    client = wsdlkit.client(w, nosend=True)
    pool = [0, 1, -1, 127, 128, 2 ** 15, 2 ** 31 - 1, 2 ** 31, -2 ** 31 - 1, 2 ** 40, 2 ** 63 - 1, -2 ** 63]
    for _ in range(ctx.pick(30, 300)):
        a, v = rng.choice(pool), rng.choice(pool + [rng.randint(-2 ** 62, 2 ** 62)])
        other = rng.choice([None, "text", True, 1.5])
        meta = {"stream": "untyped-leaves", "a": a, "v": v, "w": repr(other)}
        ctx.case(common.canon(meta), True)
        ctx.dist["untyped:call"] += 1
        try:
            env = wsdlkit.envelope_bytes(client.service.f(a, {"v": v, "w": other}))
            root = xmlread.parse(env)
        except Exception as e:
            ctx.fail("request construction failed", meta, repr(e), "a request")
            continue
        for n in xmlread.walk(root):
            t = n["attrs"].get((xmlread.XSI, "type"))
            if t is None or n["children"]:
                continue
            try:
                q = xmlread.resolve_qname(n, t)
            except xmlread.XmlError as e:
                ctx.fail("xsi:type does not resolve", meta, str(e), "a declared prefix")
                continue
            text = n.get("text") or ""
            if q[0] == xmlread.XSD and q[1] in INT_RANGES and text.lstrip("-").isdigit():
                bits = INT_RANGES[q[1]]
                if bits is not None and not (-2 ** bits <= int(text) < 2 ** bits):
                    ctx.fail("the text of an untyped leaf is not a valid lexical form of the xsi:type given to it",
                             meta, [n["name"][1], t, text], "a type whose value space holds the number")


def special_floats(ctx):
    """xsd:float / xsd:double elements, list items and attributes given the IEEE specials and extremes: the text is
    the XSD lexical form (INF, -INF, NaN; a decimal or scientific numeral that reads back equal)."""
    schema = ('<xsd:element name="f"><xsd:complexType><xsd:sequence><xsd:element name="d" type="xsd:double"/>'
              '<xsd:element name="s" type="xsd:float" minOccurs="0"/><xsd:element name="l" type="xsd:double" '
              'minOccurs="0" maxOccurs="unbounded"/></xsd:sequence><xsd:attribute name="ad" type="xsd:double"/>'
              '<xsd:attribute name="af" type="xsd:float"/></xsd:complexType></xsd:element>')
    client = wsdlkit.client(wsdlkit.wsdl_doc(schema, "f", None), nosend=True, unwrap=False)
    vals = [float("inf"), float("-inf"), float("nan"), 0.0, -0.0, 1e308, 5e-324, 1.5, -2.25e-7]

    def lex_ok(text, v):
        if text is None:
            return False
        if v != v:
            return text == "NaN"
        if v in (float("inf"), float("-inf")):
            return text == ("INF" if v > 0 else "-INF")
        try:
            return all(ch in "0123456789+-.eE" for ch in text) and float(text) == v
        except ValueError:
            return False
    for v in vals:
        meta = {"stream": "special-floats", "value": repr(v)}
        ctx.case(common.canon(meta), True)
        try:
            env = wsdlkit.envelope_bytes(client.service.f({"d": v, "s": v, "l": [v, 1.0, v], "_ad": v, "_af": v}))
            froot = xmlread.find1(xmlread.find1(xmlread.parse(env), "Body"), "f")
        except Exception as e:
            ctx.fail("request construction failed", meta, repr(e), "a request")
            continue
        texts = [[c["name"][1], c.get("text")] for c in froot["children"]] + \
                [["@" + k[1], t] for k, t in sorted(froot["attrs"].items()) if k[1] in ("ad", "af")]
        wantn = ["d", "s", "l", "l", "l", "@ad", "@af"]
        bad = [x for x in texts if not lex_ok(x[1], 1.0 if (x[0] == "l" and x is texts[3]) else v)]
        if [x[0] for x in texts] != wantn or bad:
            ctx.fail("a float value is not sent in the lexical form of its XSD type", meta, texts,
                     "INF / -INF / NaN / a numeral reading back equal, for: " + ", ".join(wantn))


def shared_attribute_element_name(ctx):
    """An inherited attribute and an element added by the derived type share one name: each is written by its own
    declaration (the element as xsd:boolean text, the attribute as the string it is)."""
    schema = ('<xsd:complexType name="B"><xsd:sequence><xsd:element name="a" type="xsd:string"/></xsd:sequence>'
              '<xsd:attribute name="flag" type="xsd:string"/></xsd:complexType>'
              '<xsd:complexType name="D"><xsd:complexContent><xsd:extension base="x:B"><xsd:sequence>'
              '<xsd:element name="flag" type="xsd:boolean"/><xsd:element name="n" type="xsd:int"/></xsd:sequence>'
              '</xsd:extension></xsd:complexContent></xsd:complexType>'
              '<xsd:element name="f"><xsd:complexType><xsd:sequence><xsd:element name="o" type="x:D"/></xsd:sequence>'
              '</xsd:complexType></xsd:element>')
    client = wsdlkit.client(wsdlkit.wsdl_doc(schema, "f", None), nosend=True)
    for mode in ("dict", "object"):
        meta = {"stream": "shared-attribute-element-name", "mode": mode}
        ctx.case(common.canon(meta), True)
        try:
            if mode == "dict":
                o = {"a": "x", "flag": True, "n": 7, "_flag": "yes"}
            else:
                o = client.factory.create("{%s}D" % wsdlkit.TNS)
                o.a, o.flag, o.n, o._flag = "x", True, 7, "yes"
            env = wsdlkit.envelope_bytes(client.service.f(o))
            on = xmlread.find1(xmlread.find1(xmlread.find1(xmlread.parse(env), "Body"), "f"), "o")
            got = [[c["name"][1], c.get("text")] for c in on["children"]] + [["@flag", on["attrs"].get((None, "flag"))]]
        except Exception as e:
            got = "%s: %s" % (type(e).__name__, e)
        want = [["a", "x"], ["flag", "true"], ["n", "7"], ["@flag", "yes"]]
        if got != want:
            ctx.fail("request differs from what the WSDL prescribes", meta, got, want)


def repeated_requests(ctx):
    """The same call made again builds the same, conforming request - also with a caller-made Element configured as
    soap header (the caller's tree is not consumed by the first request)."""
    from suds.sax.element import Element
    schema = ('<xsd:element name="f"><xsd:complexType><xsd:sequence><xsd:element name="a" type="xsd:string"/>'
              '</xsd:sequence></xsd:complexType></xsd:element>')
    for prefixes in (True, False):
        hdr = Element("Token", ns=("tk", "urn:token"))
        inner = Element("Id", ns=("tk", "urn:token"))
        inner.setText("t-1")
        hdr.append(inner)
        client = wsdlkit.client(wsdlkit.wsdl_doc(schema, "f", None), nosend=True, soapheaders=hdr, prefixes=prefixes)
        seen = []
        for n in range(3):
            meta = {"stream": "repeated-requests", "prefixes": prefixes, "call": n}
            ctx.case(common.canon(meta), True)
            try:
                env = wsdlkit.envelope_bytes(client.service.f("v"))
                root = xmlread.parse(env)
                toks = [x for x in xmlread.walk(root) if x["name"] == ("urn:token", "Id")]
                fnode = xmlread.find1(xmlread.find1(root, "Body"), "f")
                seen.append([[t.get("text") for t in toks], [[c["name"][1], c.get("text")] for c in fnode["children"]]])
            except Exception as e:
                seen.append("%s: %s" % (type(e).__name__, e))
            if seen[-1] != [["t-1"], [["a", "v"]]]:
                ctx.fail("request differs from what the WSDL prescribes", meta, seen[-1], [["t-1"], [["a", "v"]]])
                break


def repeated_raw_element_arguments(ctx):
    """A caller-made Element given as a parameter value - with content from other namespaces - is written as it is, in
    every request it is given to; the caller's tree stays the caller's (same names, namespaces and declarations)."""
    from suds.sax.element import Element
    schema = ('<xsd:element name="f"><xsd:complexType><xsd:sequence><xsd:element name="a" type="xsd:string"/>'
              '<xsd:element name="b" type="xsd:string" minOccurs="0"/></xsd:sequence></xsd:complexType></xsd:element>')

    def canon_sax(n):
        return [n.namespace()[1], n.name, None if n.getText() is None else str(n.getText()),
                sorted([a.namespace()[1], a.name, str(a.value)] for a in n.attributes), [canon_sax(c) for c in n.children]]

    def canon_read(x):
        return [x["name"][0], x["name"][1], x.get("text"),
                sorted([k[0], k[1], v] for k, v in x.get("attrs", {}).items()) if isinstance(x.get("attrs"), dict) else [],
                [canon_read(c) for c in x["children"]]]
    for shape in ("foreign-children", "default-namespace", "attributes"):
        arg = Element("a", ns=("q", wsdlkit.TNS))
        if shape == "foreign-children":
            k = Element("k", ns=("fo", "urn:foreign"))
            j = Element("j", ns=("fo2", "urn:foreign:2"))
            j.setText("2")
            k.append(j)
            arg.append(k)
        elif shape == "default-namespace":
            k = Element("k")
            k.expns = "urn:foreign"
            k.append(Element("j").setText("2"))
            arg.append(k)
        else:
            k = Element("k", ns=("fo", "urn:foreign"))
            k.addPrefix("at", "urn:attr")
            k.set("at:x", "1")
            k.setText("t")
            arg.append(k)
        before = canon_sax(arg)
        client = wsdlkit.client(wsdlkit.wsdl_doc(schema, "f", None), nosend=True)
        other = wsdlkit.client(wsdlkit.wsdl_doc(schema, "f", None), nosend=True)
        for n, cl in enumerate((client, client, other, client)):
            meta = {"stream": "repeated-raw-element", "shape": shape, "call": n}
            ctx.case(common.canon(meta), True)
            try:
                env = wsdlkit.envelope_bytes(cl.service.f(arg, "z"))
                from suds.sax.parser import Parser
                fnode = Parser().parse(string=env).root().getChild("Body").children[0]
                got = [canon_sax(fnode.children[0]), [c.name for c in fnode.children], canon_sax(arg)]
            except Exception as e:
                got = "%s: %s" % (type(e).__name__, e)
            want = [before, ["a", "b"], before]
            if got != want:
                ctx.fail("request differs from what the WSDL prescribes", meta, got, want)
                break


NOPREFIX_WSDL = ('<?xml version="1.0"?><wsdl:definitions targetNamespace="urn:w" xmlns:w="urn:w" xmlns:wsdl="http://schemas.xmlsoap.org/wsdl/" '
 'xmlns:soap="http://schemas.xmlsoap.org/wsdl/soap/"><wsdl:types>'
 '<xs:schema xmlns:xs="%(XS)s" targetNamespace="urn:np:a" elementFormDefault="qualified">'
 '<xs:complexType name="Money"><xs:simpleContent><xs:extension base="xs:decimal"><xs:attribute name="currency" type="xs:string"/></xs:extension></xs:simpleContent></xs:complexType>'
 '<xs:complexType name="BigMoney"><xs:simpleContent><xs:extension base="me:Money" xmlns:me="urn:np:a"><xs:attribute name="note" type="xs:string"/></xs:extension></xs:simpleContent></xs:complexType>'
 '<xs:complexType name="Order"><xs:sequence>'
 '<xs:element name="billing"><xs:complexType><xs:sequence><xs:element name="contact"><xs:complexType><xs:sequence><xs:element name="ok" type="xs:string"/><xs:element name="code" type="xs:int"/></xs:sequence></xs:complexType></xs:element></xs:sequence></xs:complexType></xs:element>'
 '<xs:element name="shipping"><xs:complexType><xs:sequence><xs:element name="contact"><xs:complexType><xs:sequence><xs:element name="ok" type="xs:boolean"/><xs:element name="code" type="xs:string" minOccurs="0"/></xs:sequence></xs:complexType></xs:element></xs:sequence></xs:complexType></xs:element>'
 '</xs:sequence></xs:complexType>'
 '<xs:element name="Op"><xs:complexType><xs:sequence><xs:element name="order" type="me:Order" xmlns:me="urn:np:a"/>'
 '<xs:element name="amount" type="me:Money" xmlns:me="urn:np:a"/>'
 '</xs:sequence></xs:complexType></xs:element></xs:schema>'
 '<xs:schema xmlns:xs="%(XS)s" targetNamespace="urn:np:b" elementFormDefault="qualified"><xs:element name="Hdr"><xs:complexType><xs:sequence><xs:element name="tok" type="xs:string"/></xs:sequence></xs:complexType></xs:element></xs:schema>'
 '</wsdl:types>'
 '<wsdl:message name="In"><wsdl:part name="parameters" element="qa:Op" xmlns:qa="urn:np:a"/></wsdl:message>'
 '<wsdl:message name="H"><wsdl:part name="h" element="qb:Hdr" xmlns:qb="urn:np:b"/></wsdl:message>'
 '<wsdl:portType name="PT"><wsdl:operation name="Op"><wsdl:input message="w:In"/></wsdl:operation></wsdl:portType>'
 '<wsdl:binding name="B" type="w:PT"><soap:binding style="document" transport="http://schemas.xmlsoap.org/soap/http"/>'
 '<wsdl:operation name="Op"><soap:operation soapAction="op"/><wsdl:input><soap:body use="literal"/><soap:header message="w:H" part="h" use="literal"/></wsdl:input></wsdl:operation></wsdl:binding>'
 '<wsdl:service name="S"><wsdl:port name="P" binding="w:B"><soap:address location="http://localhost/x"/></wsdl:port></wsdl:service></wsdl:definitions>' % {"XS": "http://www.w3.org/2001/XMLSchema"}).encode()


def unprefixed_namespaces_twins_and_simple_derivations(ctx):
    """A body wrapper and a declared header entry from two schemas no prefix is bound to; two local elements of one
    name ("contact") with different anonymous types in one argument; a value of a type derived from a simpleContent
    type by simpleContent extension, given where the base type is declared: each element in its own namespace, each
    member written by its own declaration, xsi:type naming the derived type."""
    A, B = "urn:np:a", "urn:np:b"
    want_h = [[B, "Hdr", None, [], [[B, "tok", "t", [], []]]]]
    want_b = [[A, "Op", None, [], [
        [A, "order", None, [], [[A, "billing", None, [], [[A, "contact", None, [], [[A, "ok", "yes", [], []], [A, "code", "7", [], []]]]]],
                                [A, "shipping", None, [], [[A, "contact", None, [], [[A, "ok", "true", [], []]]]]]]],
        [A, "amount", "1.5", [["", "currency", "EUR"], ["", "note", "n"], [xmlread.XSI, "type", [A, "BigMoney"]]], []]]]]

    def canon(n):
        at = sorted([k[0] or "", k[1], (list(xmlread.resolve_qname(n, v)) if k == (xmlread.XSI, "type") else v)]
                    for k, v in n["attrs"].items())
        return [n["name"][0], n["name"][1], (n.get("text") or None) if not n["children"] else None, at,
                [canon(k) for k in n["children"]]]
    for hv in ({"Hdr": {"tok": "t"}}, ({"tok": "t"},), [{"tok": "t"}]):
        for unwrap in (True, False):
            for prefixes in (True, False):
                meta = {"stream": "unprefixed-namespaces-twins-derivations", "soapheaders": repr(hv), "unwrap": unwrap,
                        "prefixes": prefixes}
                ctx.case(common.canon(meta), True)
                try:
                    c = wsdlkit.client(NOPREFIX_WSDL, nosend=True, soapheaders=hv, unwrap=unwrap, prefixes=prefixes)
                    big = c.factory.create("{urn:np:a}BigMoney")
                    big.value, big._currency, big._note = "1.5", "EUR", "n"
                    args = dict(order=dict(billing={"contact": {"ok": "yes", "code": 7}},
                                           shipping={"contact": {"ok": True, "code": None}}), amount=big)
                    env = wsdlkit.envelope_bytes(c.service.Op(**args) if unwrap else c.service.Op(args))
                    root = xmlread.parse(env)
                    got = [[canon(k) for k in xmlread.find1(root, "Header")["children"]],
                           [canon(k) for k in xmlread.find1(root, "Body")["children"]]]
                except Exception as e:
                    got = "%s: %s" % (type(e).__name__, e)
                if got != [want_h, want_b]:
                    ctx.fail("request differs from what the WSDL prescribes", meta, got, [want_h, want_b])


def encoded_any_parts(ctx):
    """rpc/encoded: a part or a member declared xsd:anyType is written with the xsi:type of the VALUE given (a
    receiver cannot learn it from anywhere else), not with xsi:type anyType."""
    XSD = xmlread.XSD
    schema = ('<xsd:complexType name="Holder"><xsd:sequence><xsd:element name="any" type="xsd:anyType"/></xsd:sequence>'
              '</xsd:complexType>')
    w = wsdlkit.wsdl_doc(schema, style="rpc", use="encoded", in_parts=[("v", "type", "xsd:anyType"), ("h", "type", "x:Holder")],
                         out_parts=[("return", "type", "xsd:string")])
    c = wsdlkit.client(w, nosend=True)

    def ty(n):
        t = n["attrs"].get((xmlread.XSI, "type"))
        return None if t is None else list(xmlread.resolve_qname(n, t))
    for val, tname in ((True, "boolean"), (2.5, "float"), (7, "long"), ("s", "string")):
        meta = {"stream": "encoded-any-parts", "value": repr(val)}
        ctx.case(common.canon(meta), True)
        try:
            env = wsdlkit.envelope_bytes(c.service.f(val, {"any": val}))
            fn = xmlread.find1(xmlread.parse(env), "Body")["children"][0]
            v, h = fn["children"]
            got = [ty(v), ty(h["children"][0]), v["text"].lower(), h["children"][0]["text"].lower()]
        except Exception as e:
            got = "%s: %s" % (type(e).__name__, e)
        want = [[XSD, tname], [XSD, tname], str(val).lower(), str(val).lower()]
        if got != want:
            ctx.fail("request differs from what the WSDL prescribes", meta, got, want)


def optional_groups_and_same_named_derivations(ctx):
    """(a) None for the required members of an OPTIONAL group (minOccurs=0 on the compositor) inside an anonymous type
    leaves the group out; (b) a value of a derived type that has the local name of its base type (another namespace)
    is sent with the xsi:type of the derived type."""
    schema = ('<xsd:import namespace="urn:bb"/><xsd:complexType name="Item"><xsd:sequence><xsd:element name="n" type="xsd:string"/>'
              '</xsd:sequence></xsd:complexType><xsd:element name="f"><xsd:complexType><xsd:sequence><xsd:element name="o">'
              '<xsd:complexType><xsd:sequence><xsd:element name="a" type="xsd:string"/><xsd:sequence minOccurs="0">'
              '<xsd:element name="b" type="xsd:string"/><xsd:element name="c" type="xsd:int"/></xsd:sequence></xsd:sequence>'
              '</xsd:complexType></xsd:element><xsd:element name="i" type="x:Item"/></xsd:sequence></xsd:complexType></xsd:element>')
    other = ('<xsd:schema xmlns:xsd="http://www.w3.org/2001/XMLSchema" xmlns:a="%s" targetNamespace="urn:bb" '
             'elementFormDefault="qualified"><xsd:import namespace="%s"/><xsd:complexType name="Item"><xsd:complexContent>'
             '<xsd:extension base="a:Item"><xsd:sequence><xsd:element name="extra" type="xsd:string"/></xsd:sequence>'
             '</xsd:extension></xsd:complexContent></xsd:complexType></xsd:schema>' % (wsdlkit.TNS, wsdlkit.TNS))
    for unwrap in (True, False):
        meta = {"stream": "optional-groups-and-same-named-derivations", "unwrap": unwrap}
        ctx.case(common.canon(meta), True)
        try:
            c = wsdlkit.client(wsdlkit.wsdl_doc(schema, "f", None, extra_schemas=other), nosend=True, unwrap=unwrap)
            it = c.factory.create("{urn:bb}Item")
            it.n, it.extra = "n1", "e1"
            args = {"o": {"a": "x", "b": None, "c": None}, "i": it}
            env = wsdlkit.envelope_bytes(c.service.f(**args) if unwrap else c.service.f(args))
            fn = xmlread.find1(xmlread.find1(xmlread.parse(env), "Body"), "f")
            o_, i_ = fn["children"]
            t = i_["attrs"].get((xmlread.XSI, "type"))
            got = [[k["name"][1] for k in o_["children"]], None if t is None else list(xmlread.resolve_qname(i_, t)),
                   [[k["name"][0], k["name"][1], k.get("text")] for k in i_["children"]]]
        except Exception as e:
            got = "%s: %s" % (type(e).__name__, e)
        want = [["a"], ["urn:bb", "Item"], [[wsdlkit.TNS, "n", "n1"], ["urn:bb", "extra", "e1"]]]
        if got != want:
            ctx.fail("request differs from what the WSDL prescribes", meta, got, want)


def tuples_for_repeated_elements(ctx):
    """A repeated element given as a tuple - at the top level, inside a dict and inside a factory object - is written
    like the list of the same items."""
    schema = ('<xsd:complexType name="O"><xsd:sequence><xsd:element name="n" type="xsd:int" maxOccurs="unbounded"/>'
              '<xsd:element name="s" type="xsd:string" minOccurs="0" maxOccurs="unbounded"/></xsd:sequence></xsd:complexType>'
              '<xsd:element name="f"><xsd:complexType><xsd:sequence><xsd:element name="o" type="x:O"/>'
              '<xsd:element name="t" type="xsd:int" maxOccurs="unbounded"/></xsd:sequence></xsd:complexType></xsd:element>')
    client = wsdlkit.client(wsdlkit.wsdl_doc(schema, "f", None), nosend=True)

    def sent(o, t):
        env = wsdlkit.envelope_bytes(client.service.f(o, t))
        fn = xmlread.find1(xmlread.find1(xmlread.parse(env), "Body"), "f")
        return [[c["name"][1], c.get("text") if not c["children"] else [[g["name"][1], g.get("text")] for g in c["children"]]]
                for c in fn["children"]]
    want = [["o", [["n", "3"], ["n", "4"], ["n", "5"], ["s", "a"], ["s", "b"]]], ["t", "7"], ["t", "8"]]
    obj = client.factory.create("{%s}O" % wsdlkit.TNS)
    obj.n, obj.s = (3, 4, 5), ("a", "b")
    for label, o, t in (("lists", {"n": [3, 4, 5], "s": ["a", "b"]}, [7, 8]),
                        ("tuples in a dict", {"n": (3, 4, 5), "s": ("a", "b")}, (7, 8)),
                        ("tuples in a factory object", obj, (7, 8))):
        meta = {"stream": "tuples-for-repeated-elements", "argument": label}
        ctx.case(common.canon(meta), True)
        try:
            got = sent(o, t)
        except Exception as e:
            got = "%s: %s" % (type(e).__name__, e)
        if got != want:
            ctx.fail("request differs from what the WSDL prescribes", meta, got, want)


def headers_mixing_elements_and_values(ctx):
    """soapheaders given as a list that mixes a caller-made Element with values for the declared header parts: every
    value goes to its part in declaration order, wherever the Elements stand among them."""
    from suds.sax.element import Element
    schema = ('<xsd:element name="f"><xsd:complexType><xsd:sequence><xsd:element name="a" type="xsd:string"/>'
              '</xsd:sequence></xsd:complexType></xsd:element><xsd:element name="H1" type="xsd:string"/>'
              '<xsd:element name="H2" type="xsd:int"/>')
    w = wsdlkit.wsdl_doc(schema, "f", None, header_parts=[("element", "x:H1"), ("element", "x:H2")])

    def tok():
        e = Element("Token", ns=("tk", "urn:token"))
        e.setText("t")
        return e
    for label, hs, want in (("element-first", [tok(), "h1", 2], ["Token", "H1=h1", "H2=2"]),
                            ("element-between", ["h1", tok(), 2], ["H1=h1", "Token", "H2=2"]),
                            ("element-last", ["h1", 2, tok()], ["H1=h1", "H2=2", "Token"]),
                            ("two-elements", [tok(), "h1", tok(), 2], ["Token", "H1=h1", "Token", "H2=2"])):
        meta = {"stream": "headers-mixing-elements-and-values", "order": label}
        ctx.case(common.canon(meta), True)
        try:
            env = wsdlkit.envelope_bytes(wsdlkit.client(w, nosend=True, soapheaders=hs).service.f("v"))
            hdr = xmlread.find1(xmlread.parse(env), "Header")
            got = [c["name"][1] if c["name"][1] == "Token" else "%s=%s" % (c["name"][1], c.get("text")) for c in hdr["children"]]
        except Exception as e:
            got = "%s: %s" % (type(e).__name__, e)
        if got != want:
            ctx.fail("request differs from what the WSDL prescribes", meta, got, want)


def one(ctx, client, I, op, args, mode, meta, env, reqs, metas):
    try:
        mism, envelope = K.check_request(client, I, op, args, mode)
    except Exception as e:
        ctx.fail("building the request raised", meta, "%s: %s" % (type(e).__name__, e), "a conforming request")
        return
    if mism:
        ctx.fail("request does not conform to the schema", meta, mism[:6], "the message the WSDL prescribes",
                 envelope=envelope.decode("utf-8", "replace")[:3000])
        return
    nil_invariant(ctx, meta, envelope)
    root, kids = K.body_children(envelope)
    actual = [SM.canon_node(k) for k in kids]
    spec = [SM.spec_to_info(s) for s in IF.spec_request(I, op, args)]
    reqs.append({"op": "schema.request", "env": env, "operation": SM.op_json(I, op), "args": SM.args_json(I, op, args)})
    metas.append((meta, actual, spec))


def widen(ctx):
    ctx.tier = "thorough"
    run(ctx)


ENC_SCHEMA = ('<xsd:import namespace="http://schemas.xmlsoap.org/soap/encoding/"/>'
              '<xsd:complexType name="P"><xsd:sequence><xsd:element name="name" type="xsd:string"/></xsd:sequence>'
              '</xsd:complexType><xsd:complexType name="Q"><xsd:complexContent><xsd:extension base="x:P"><xsd:sequence>'
              '<xsd:element name="extra" type="xsd:boolean"/></xsd:sequence></xsd:extension></xsd:complexContent>'
              '</xsd:complexType><xsd:complexType name="ArrayOfP"><xsd:complexContent><xsd:restriction '
              'base="soapenc:Array"><xsd:attribute ref="soapenc:arrayType" wsdl:arrayType="x:P[]"/></xsd:restriction>'
              '</xsd:complexContent></xsd:complexType><xsd:complexType name="ArrayOfBool"><xsd:complexContent>'
              '<xsd:restriction base="soapenc:Array"><xsd:attribute ref="soapenc:arrayType" '
              'wsdl:arrayType="xsd:boolean[]"/></xsd:restriction></xsd:complexContent></xsd:complexType>')


def witness(ctx, k):
    kind = (k.get("witness") or {}).get("kind")
    if kind == "reserved-attribute-names":
        return reserved_attr_names() is not None
    if kind == "clobbered-type-prefix":
        return clobbered_type_prefix() is not None
    if kind == "none-in-top-level-list":
        schema = ('<xsd:element name="f"><xsd:complexType><xsd:sequence><xsd:element name="items" type="xsd:string" '
                  'minOccurs="0" maxOccurs="unbounded"/></xsd:sequence></xsd:complexType></xsd:element>')
        c = wsdlkit.client(wsdlkit.wsdl_doc(schema, "f", None), nosend=True)
        try:
            env = wsdlkit.envelope_bytes(c.service.f(items=["1", None, "2"]))
            froot = xmlread.find1(xmlread.find1(xmlread.parse(env), "Body"), "f")
            return [ch.get("text") for ch in froot["children"]] != ["1", "2"]
        except Exception:
            return True
    if kind not in ("derived-in-array", "array-item-lexical"):
        return None
    w = wsdlkit.wsdl_doc(ENC_SCHEMA, style="rpc", use="encoded",
                         in_parts=[("ps", "type", "x:ArrayOfP"), ("bs", "type", "x:ArrayOfBool")],
                         out_parts=[("return", "type", "xsd:string")])
    c = wsdlkit.client(w, nosend=True)
    q = c.factory.create("{%s}Q" % wsdlkit.TNS)
    q.name, q.extra = "q", True
    try:
        env = wsdlkit.envelope_bytes(c.service.f([{"name": "z"}, q], [True, False]))
    except Exception:
        return True
    root, kids = K.body_children(env)
    ps, bs = kids[0]["children"]
    if kind == "derived-in-array":
        item = ps["children"][1]
        t = xmlread.resolve_qname(item, item["attrs"][(xmlread.XSI, "type")])
        return tuple(t) != (wsdlkit.TNS, "Q") or [c_["name"][1] for c_ in item["children"]] != ["name", "extra"]
    return [i["text"] for i in bs["children"]] != ["true", "false"]


def replay(ctx, payload):
    f = payload.get("failure") or (payload.get("disagreement") or {})
    m = f.get("input") or {}
    if "iface" not in m:
        return {"fails": bool(f), "recorded": f}
    I = K.iface_of(m["iface"])
    docs = IF.render(K.rendering_of(m["rendering"]), I)
    client = K.make_client(docs)
    op = [o for o in I["ops"] if o["name"] == m["op"]][0]
    args = K.args_of(m["iface"], I, op, m["case"])
    mism, envelope = K.check_request(client, I, op, args, m["mode"])
    return {"fails": bool(mism), "mismatches": mism, "args": repr(args)[:2000],
            "envelope": envelope.decode("utf-8", "replace"), "wsdl": docs["main.wsdl"].decode()}
