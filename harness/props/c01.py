"""C01 - Requests conform to the WSDL and schema they were built from."""
import random

from harness import common, wsdlkit, xmlread
from harness import iface as IF, ifacecheck as K, schemamodel as SM

ID = "C01"
LEAN_MODULES = ["SudsModel.Props.C01"]
RULE = ("generated interface family (1..3 target namespaces, nested sequence/choice/all, groups, attribute groups, "
        "extension chains across namespaces, element refs, qualified/unqualified forms, recursive members; every "
        "fifth interface rpc/encoded with section-5 arrays) x every operation (wrapped, bare, rpc/literal, "
        "rpc/encoded) x schema-conforming argument trees (builtin leaves of 8 XSD types, None, lists 0..3, nested "
        "objects, derived-type substitutions, attributes) passed as keyword dicts, as factory objects and by position; the bytes "
        "handed to the transport are read by an independent expat-based infoset reader and matched against the "
        "reference translator (iface.spec_request) and against the Lean marshaller model; non-trivial = every "
        "(interface, operation, arguments, passing mode); distinct = distinct of those")
ASSUMPTIONS = ["leaf lexical forms are compared by value per XSD type (the translators themselves are C06)",
               "alphabet: a None is passed only where the schema allows absence or nil; a repeating member of "
               "array type (list of lists) and content-free objects are not generated",
               "suds calling convention, not part of the message: a single-part document/literal message with a "
               "complex element is called with the element's members; every rpc part is optional (None or an "
               "empty array leaves the accessor out)"]
PARTIAL = [{"theorem": "request_is_spec (whole-tree refinement marshal = reference translator)", "missing":
            "the reference translator is Python; the Lean theorems state its rules one by one over the model "
            "(order, names, namespaces, skip, nil, xsi:type, arrays) and the correspondence compares whole trees"}]
TRUSTED = ["pyexpat as the independent XML processor", "iface.py renderer and reference translator"]


def run(ctx):
    n_ifaces = ctx.pick(150, 6000)
    cases = ctx.pick(3, 5)
    reqs, metas = [], []
    for ident, I in K.family(ctx, n_ifaces, "C01"):
        K.shape_stats(ctx, I)
        rident = "canonical" if ctx.rng.random() < 0.5 else "r:" + ident
        docs = IF.render(K.rendering_of(rident), I)
        try:
            client = K.make_client(docs)
        except Exception as e:
            ctx.fail("WSDL of the family does not load", {"iface": ident, "rendering": rident}, repr(e), "a client")
            continue
        env = SM.env_json(I)
        for op in I["ops"]:
            for case in range(cases):
                args = K.args_of(ident, I, op, case)
                for v in args.values():
                    K.value_stats(ctx, v)
                for mode in ("dict", "object", "positional"):
                    meta = {"iface": ident, "rendering": rident, "op": op["name"], "case": case, "mode": mode}
                    ctx.case(common.canon(meta), True)
                    ctx.dist["style=" + op["style"]] += 1
                    one(ctx, client, I, op, args, mode, meta, env, reqs, metas)
    answers = ctx.driver.ask(reqs)
    for ans, (meta, actual, spec) in zip(answers, metas):
        model = [SM.canon_info(x) for x in ans] if isinstance(ans, list) else ans
        ctx.compare("marshal-model-vs-suds", meta, actual, model)
        ctx.compare("marshal-model-vs-reference", meta, spec, model)
    if metas:
        ctx.sample({"input": metas[0][0], "body": metas[0][1]})


def one(ctx, client, I, op, args, mode, meta, env, reqs, metas):
    try:
        mism, envelope = K.check_request(client, I, op, args, mode)
    except Exception as e:
        ctx.fail("building the request raised", meta, "%s: %s" % (type(e).__name__, e), "a conforming request")
        return
    if mism:
        ctx.fail("request does not conform to the schema", meta, mism[:6], "the message the WSDL prescribes",
                 envelope=envelope.decode("utf-8", "replace")[:3000])
        return
    root, kids = K.body_children(envelope)
    actual = [SM.canon_node(k) for k in kids]
    spec = [SM.spec_to_info(s) for s in IF.spec_request(I, op, args)]
    reqs.append({"op": "schema.request", "env": env, "operation": SM.op_json(I, op), "args": SM.args_json(I, op, args)})
    metas.append((meta, actual, spec))


def widen(ctx):
    ctx.tier = "thorough"
    run(ctx)


ENC_SCHEMA = ('<xsd:import namespace="http://schemas.xmlsoap.org/soap/encoding/"/>'
              '<xsd:complexType name="P"><xsd:sequence><xsd:element name="name" type="xsd:string"/></xsd:sequence>'
              '</xsd:complexType><xsd:complexType name="Q"><xsd:complexContent><xsd:extension base="x:P"><xsd:sequence>'
              '<xsd:element name="extra" type="xsd:boolean"/></xsd:sequence></xsd:extension></xsd:complexContent>'
              '</xsd:complexType><xsd:complexType name="ArrayOfP"><xsd:complexContent><xsd:restriction '
              'base="soapenc:Array"><xsd:attribute ref="soapenc:arrayType" wsdl:arrayType="x:P[]"/></xsd:restriction>'
              '</xsd:complexContent></xsd:complexType><xsd:complexType name="ArrayOfBool"><xsd:complexContent>'
              '<xsd:restriction base="soapenc:Array"><xsd:attribute ref="soapenc:arrayType" '
              'wsdl:arrayType="xsd:boolean[]"/></xsd:restriction></xsd:complexContent></xsd:complexType>')


def witness(ctx, k):
    kind = (k.get("witness") or {}).get("kind")
    if kind not in ("derived-in-array", "array-item-lexical"):
        return None
    w = wsdlkit.wsdl_doc(ENC_SCHEMA, style="rpc", use="encoded",
                         in_parts=[("ps", "type", "x:ArrayOfP"), ("bs", "type", "x:ArrayOfBool")],
                         out_parts=[("return", "type", "xsd:string")])
    c = wsdlkit.client(w, nosend=True)
    q = c.factory.create("{%s}Q" % wsdlkit.TNS)
    q.name, q.extra = "q", True
    try:
        env = wsdlkit.envelope_bytes(c.service.f([{"name": "z"}, q], [True, False]))
    except Exception:
        return True
    root, kids = K.body_children(env)
    ps, bs = kids[0]["children"]
    if kind == "derived-in-array":
        item = ps["children"][1]
        t = xmlread.resolve_qname(item, item["attrs"][(xmlread.XSI, "type")])
        return tuple(t) != (wsdlkit.TNS, "Q") or [c_["name"][1] for c_ in item["children"]] != ["name", "extra"]
    return [i["text"] for i in bs["children"]] != ["true", "false"]


def replay(ctx, payload):
    f = payload.get("failure") or (payload.get("disagreement") or {})
    m = f.get("input") or {}
    if "iface" not in m:
        return {"fails": bool(f), "recorded": f}
    I = K.iface_of(m["iface"])
    docs = IF.render(K.rendering_of(m["rendering"]), I)
    client = K.make_client(docs)
    op = [o for o in I["ops"] if o["name"] == m["op"]][0]
    args = K.args_of(m["iface"], I, op, m["case"])
    mism, envelope = K.check_request(client, I, op, args, m["mode"])
    return {"fails": bool(mism), "mismatches": mism, "args": repr(args)[:2000],
            "envelope": envelope.decode("utf-8", "replace"), "wsdl": docs["main.wsdl"].decode()}
