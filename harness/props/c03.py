"""C03 - Factory-built objects mirror the schema type they are created from."""
import copy
import random

from harness import common, wsdlkit, xmlread
from harness import iface as IF, ifacecheck as K, schemamodel as SM

ID = "C03"
LEAN_MODULES = ["SudsModel.Props.C03"]
RULE = ("generated literal interface family (as C01, without rpc/encoded) x every named complex type, every wrapped "
        "operation's input element and every enumeration x every spelling of its name that resolves ({namespace}name, "
        "prefix:name with the client's own prefix, plain name when the WSDL's target namespace is the type's, dotted "
        "path to a complex-typed member); the object's attribute names in order, values and class are compared with "
        "the reference skeleton and with the Lean builder model; objects filled from generated argument trees are "
        "sent and their request compared with the one the equivalent dict gives; unknown names (plain, qualified, "
        "dotted) must raise TypeNotFound; non-trivial = every (interface, rendering, name spelling) and every "
        "filled-object request; distinct = distinct of those"
        " ; plus streams: simpleContent types as required / optional / repeating children, element and type sharing a name, types derived by restriction, enumeration aliases, factory.separator, attribute order (canonical rendering), names spelled with the document's own prefix"
        ' ; occurrence bounds 0/1/2/10/unbounded, dotted paths rooted at a global element with a named type, every create a fresh object (enumerations included)'
        ' ; element order of filled objects; a name shared by an inherited attribute and an element of the derived type'
        " ; the client's own prefix under both path separators; an attribute whose name starts with an underscore; members present for iteration, len and in"
        ' ; unknown attribute steps (@name) raise TypeNotFound'
        ' ; pre-built nested children like their type; unknown steps in the middle of a path'
        ' ; simpleContent over an enumeration without attributes'
        ' ; names of built-in typed steps; bare simpleContent; member order of derived types'
        ' ; a local element by its own name')
ASSUMPTIONS = ["a name with a prefix the client does not know raises a plain Exception('prefix not resolved'), not "
               "TypeNotFound: unknown *prefixes* are outside the alphabet of unknown names",
               "factory objects of section-5 array types are outside the family",
               "an attribute default sent explicitly means the same as leaving it out (schema default)"]
PARTIAL = []
TRUSTED = ["iface.py reference skeleton"]
CLASSIFIERS = {}


def only_empty_attr_diffs(got, exp, I_attr_defaults=None):
    """True when got == exp except that attributes without a default hold '' instead of None (D29)."""
    if isinstance(got, dict) and isinstance(exp, dict):
        if list(k for k in got if not k.startswith("_") or k.startswith("__")) != \
                list(k for k in exp if not k.startswith("_") or k.startswith("__")):
            return False
        if set(got) != set(exp):
            return False
        for k in got:
            g, e = got[k], exp[k]
            if k.startswith("_") and not k.startswith("__"):
                if g == e or (g == "" and e is None):
                    continue
                return False
            if not only_empty_attr_diffs(g, e):
                return False
        return True
    if isinstance(got, list) and isinstance(exp, list):
        return len(got) == len(exp) and all(only_empty_attr_diffs(a, b) for a, b in zip(got, exp))
    return K.same_value(got, exp)


def c03_empty_attr_default(f, k):
    """D29: an attribute declared without a default is pre-set to '' (and then sent as name="")."""
    kind = f.get("kind")
    if kind == "skeleton":
        return f.get("d29_only") is True
    if kind == "filled-request":
        mm = f.get("observed") or []
        return bool(mm) and all(("unexpected attribute" in m and m.rstrip().endswith("=''")) for m in mm)
    return False


CLASSIFIERS["c03_empty_attr_default"] = c03_empty_attr_default


def normal_strict(x):
    return K.normal(x)


def skeleton_expected(I, key):
    return IF.spec_skeleton(I, key)


def with_op_types(I):
    """Copy of I in which every wrapped operation's input element is also a named type (its anonymous type)."""
    I2 = dict(I)
    I2["types"] = dict(I["types"])
    I2["type_order"] = list(I["type_order"])
    for op in I["ops"]:
        if op["style"] == "wrapped":
            key = (0, op["name"])
            I2["types"][key] = {"base": None, "particle": {"kind": "seq", "items": list(op["in"])}, "attrs": []}
            I2["type_order"].append(key)
    return I2


def fill(client, I, ttype, value):
    """A factory object filled with `value`: only what the value mentions is set."""
    if value is None:
        return None
    if isinstance(value, list):
        return [fill(client, I, ttype, v) for v in value]
    if ttype[0] == "b":
        return value
    key = ttype[1]
    real = value.get("__type__", key)
    members = {m["name"]: m for m, _, _ in IF.members_of(I, real)}
    obj = client.factory.create(K.type_name(I, real))
    for k, v in value.items():
        if k == "__type__":
            continue
        if k.startswith("_"):
            setattr(obj, k, v)
        else:
            setattr(obj, k, fill(client, I, members[k]["type"], v))
    # the element members of a filled object still come in schema order, whatever the
    # order they were assigned in and whether or not they were pre-populated (choice branches are not)
    # (where the attributes stand among them follows the order of declaration in the document: not compared)
    order = [m["name"] for m, _, _ in IF.members_of(I, real)]
    present = [k for k, _v in obj if not k.startswith("_")]
    want = [k for k in order if k in present]
    if [k for k in present if k in order] != want:
        ORDER_ISSUES.append([K.type_name(I, real), present, want])
    return obj


ORDER_ISSUES = []


def with_defaults(I, ttype, value):
    """The value plus every attribute default the factory pre-sets."""
    if value is None or ttype[0] == "b":
        return value
    if isinstance(value, list):
        return [with_defaults(I, ttype, v) for v in value]
    key = ttype[1]
    real = value.get("__type__", key)
    members = {m["name"]: m for m, _, _ in IF.members_of(I, real)}
    out = {}
    for k, v in value.items():
        out[k] = v if (k == "__type__" or k.startswith("_")) else with_defaults(I, members[k]["type"], v)
    for a, _ in IF.attrs_of(I, real):
        if a["default"] is not None and out.get("_" + a["name"]) is None:
            out["_" + a["name"]] = {"int": int, "string": str, "boolean": lambda s: s == "true"}[a["type"]](a["default"])
    # required complex members the value does not mention stay pre-built (an element with the type's defaults)
    return out


def run(ctx):
    import suds
    n_ifaces = ctx.pick(300, 6000)
    reqs, metas = [], []
    for ident, I0 in K.family(ctx, n_ifaces, "C03", encoded_every=0):
        K.shape_stats(ctx, I0)
        I = with_op_types(I0)
        env = SM.env_json(I)
        for rident in ("canonical", "r:" + ident):
            r = K.rendering_of(rident, anonymous=False)
            docs = IF.render(r, I0)
            try:
                client = K.make_client(docs)
            except Exception as e:
                ctx.fail("WSDL of the family does not load", {"iface": ident, "rendering": rident}, repr(e), "a client")
                continue
            prefixes = {str(u): p for p, u in client.sd[0].prefixes}
            for key in I["type_order"]:
                uri = I["namespaces"][key[0]]["uri"]
                spellings = [("qualified", "{%s}%s" % (uri, key[1]))]
                if uri in prefixes:
                    spellings.append(("prefixed", "%s:%s" % (prefixes[uri], key[1])))
                if r.wsdl_tns_is_ns0 and key[0] == 0:
                    spellings.append(("plain", key[1]))
                if r.root_prefixes or r.rng is None:
                    # the prefix the WSDL document itself declares for the namespace (on <definitions>)
                    spellings.append(("document-prefix", "%s:%s" % (r.prefixes[key[0]], key[1])))
                expected = skeleton_expected(I, key)
                for kind, name in spellings:
                    check_create(ctx, client, ident, rident, kind, name, expected, I, key, env, reqs, metas)
                for m, decl, in_choice in IF.members_of(I, key):
                    if m["type"][0] == "c":
                        check_create(ctx, client, ident, rident, "dotted", "{%s}%s.%s" % (uri, key[1], m["name"]),
                                     skeleton_expected(I, m["type"][1]), I, m["type"][1], env, reqs, metas)
                        break
                # a longer path through complex-typed members (up to 5 parts), parts optionally prefixed
                prng = random.Random("path:%s:%s:%s" % (ident, rident, key))
                path, cur = [], key
                for _ in range(prng.randint(2, 4)):
                    nxt = [m for m, _, _ in IF.members_of(I, cur) if m["type"][0] == "c"]
                    if not nxt:
                        break
                    m = prng.choice(nxt)
                    part = m["name"]
                    if uri in prefixes and prng.random() < 0.3:
                        part = "%s:%s" % (prefixes[uri], part)
                    path.append(part)
                    cur = m["type"][1]
                if len(path) >= 2:
                    ctx.dist["dotted path parts=%d" % (len(path) + 1)] += 1
                    check_create(ctx, client, ident, rident, "dotted-deep", "{%s}%s.%s" % (uri, key[1], ".".join(path)),
                                 skeleton_expected(I, cur), I, cur, env, reqs, metas)
            for ekey, vals in sorted(I0.get("enums", {}).items()):
                name = "{%s}%s" % (I0["namespaces"][ekey[0]]["uri"], ekey[1])
                meta = {"iface": ident, "rendering": rident, "spelling": "enum", "name": name}
                ctx.case(common.canon(meta), True)
                ctx.dist["spelling=enum"] += 1
                try:
                    o = client.factory.create(name)
                    got = [(k, str(v)) for k, v in suds.sudsobject.items(o)]
                except Exception as e:
                    got = "%s: %s" % (type(e).__name__, e)
                if got != [(v, v) for v in vals]:
                    ctx.fail("enumeration object does not expose exactly the declared values", meta, got,
                             [(v, v) for v in vals], kind="enum")
            # unknown names
            uri0 = I["namespaces"][0]["uri"]
            first = I["type_order"][0]
            for bad in ("Nope", "{%s}Nope" % uri0, "{urn:nowhere}T0",
                        "{%s}%s.nope" % (I["namespaces"][first[0]]["uri"], first[1])):
                meta = {"iface": ident, "rendering": rident, "spelling": "unknown", "name": bad}
                ctx.case(common.canon(meta), True)
                ctx.dist["spelling=unknown"] += 1
                try:
                    o = client.factory.create(bad)
                    ctx.fail("an unknown name yielded an object", meta, repr(o)[:300], "TypeNotFound", kind="unknown")
                except suds.TypeNotFound:
                    pass
                except Exception as e:
                    ctx.fail("an unknown name raised something other than TypeNotFound", meta,
                             "%s: %s" % (type(e).__name__, e), "TypeNotFound", kind="unknown")
            if rident == "canonical":
                filled_requests(ctx, client, ident, rident, I0)
    flavour_probe(ctx)
    special_shapes(ctx)
    derived_and_separator(ctx)
    occurrences_roots_and_independence(ctx)
    nested_children_like_their_type(ctx)
    builtin_typed_names_and_bare_simple_content(ctx)
    answers = ctx.driver.ask(reqs)
    for ans, (meta, got, exp) in zip(answers, metas):
        model = SM.py_canon_model(ans)
        ctx.compare("builder-model-vs-suds", meta, got, model)
        ctx.compare("builder-model-vs-reference", meta, exp, model)
    if metas:
        ctx.sample({"input": metas[0][0], "object": metas[0][1]})


def special_shapes(ctx):
    """Shapes outside the generated family: (a) a complexType with simpleContent (text value + attributes) used as a
    required / optional / repeating child - the pre-built child equals what factory.create gives for the type itself
    and for the dotted path, and a filled one is sent as text + attributes; (b) a global element and a named type
    sharing one NAME with different content: the object created under that name fits the parameter declared with
    the element (a filled object and the equivalent dict give the same request)."""
    rng = ctx.rng
    T = "{%s}" % wsdlkit.TNS
    for _ in range(ctx.pick(12, 150)):
        base = rng.choice(["decimal", "int", "string"])   # (boolean text goes out as str(True): D38, request side)
        attrs = [("cur", rng.choice([None, "EUR"])), ("unit", rng.choice([None, "kg"]))][:rng.randint(1, 2)]
        sname, tname, shared = rng.choice(["Money", "Qty"]), rng.choice(["Order", "Line"]), rng.choice(["Account", "Item"])
        adecl = "".join('<xsd:attribute name="%s" type="xsd:string"%s/>' % (a, ' default="%s"' % d if d else "")
                        for a, d in attrs)
        first_type = rng.random() < 0.5
        tdecl = ('<xsd:complexType name="%s"><xsd:sequence><xsd:element name="typeonly" type="xsd:string"/>'
                 '</xsd:sequence></xsd:complexType>' % shared)
        edecl = ('<xsd:element name="%s"><xsd:complexType><xsd:sequence><xsd:element name="owner" type="xsd:string"/>'
                 '<xsd:element name="n" type="xsd:int" minOccurs="0"/></xsd:sequence></xsd:complexType></xsd:element>'
                 % shared)
        schema = ('<xsd:complexType name="%s"><xsd:simpleContent><xsd:extension base="xsd:%s">%s</xsd:extension>'
                  '</xsd:simpleContent></xsd:complexType>'
                  '<xsd:complexType name="%s"><xsd:sequence><xsd:element name="lead" type="xsd:string" minOccurs="0"/>'
                  '<xsd:element name="r" type="x:%s"/><xsd:element name="o" type="x:%s" minOccurs="0"/>'
                  '<xsd:element name="m" type="x:%s" minOccurs="0" maxOccurs="unbounded"/></xsd:sequence>'
                  '</xsd:complexType>%s'
                  '<xsd:element name="f"><xsd:complexType><xsd:sequence><xsd:element name="t" type="x:%s"/>'
                  '<xsd:element ref="x:%s" minOccurs="0"/></xsd:sequence></xsd:complexType></xsd:element>'
                  % (sname, base, adecl, tname, sname, sname, sname,
                     (tdecl + edecl) if first_type else (edecl + tdecl), tname, shared))
        meta = {"stream": "special-shapes", "simple_content": [sname, base, attrs], "holder": tname,
                "shared_name": shared, "type_declared_first": first_type}
        ctx.case(common.canon(meta), True)
        ctx.dist["special-shapes:base=" + base] += 1
        try:
            client = wsdlkit.client(wsdlkit.wsdl_doc(schema, "f", None), nosend=True)
            direct = K.normal(client.factory.create(T + sname))
            nested = K.normal(client.factory.create(T + tname))
            dotted = K.normal(client.factory.create(T + tname + ".r"))
        except Exception as e:
            ctx.fail("factory.create raised for a name the WSDL defines", meta, "%s: %s" % (type(e).__name__, e),
                     "objects", kind="special")
            continue
        want_keys = ["value"] + ["_" + a for a, _d in attrs]
        want = {"__class__": sname, "value": None}
        for a, d in attrs:
            want["_" + a] = d
        if list(direct.keys()) != ["__class__"] + want_keys or not K.same_value(blank_attrs(direct), want):
            ctx.fail("a simpleContent type is not created with its text value and attributes", meta, repr(direct),
                     repr(want), kind="special")
        exp_nested = {"__class__": tname, "lead": None, "r": direct, "o": None, "m": []}
        if not K.same_value(nested, exp_nested):
            ctx.fail("a required simpleContent child is not pre-built like the type itself (optional None, repeating [])",
                     meta, repr(nested), repr(exp_nested), kind="special")
        if not K.same_value(dotted, direct):
            ctx.fail("the dotted path to a simpleContent child does not give the child's type", meta, repr(dotted),
                     repr(direct), kind="special")
        # fill and send
        lex = {"decimal": "7.50", "int": "42", "string": "some text", "boolean": "true"}[base]
        val = {"decimal": __import__("decimal").Decimal("7.50"), "int": 42, "string": "some text", "boolean": True}[base]
        try:
            t = client.factory.create(T + tname)
            t.r.value = val
            setattr(t.r, "_" + attrs[0][0], "USD")
            acct = client.factory.create(T + shared)
            acct.owner = "me"
            env1 = wsdlkit.envelope_bytes(client.service.f(t, acct))
            env2 = wsdlkit.envelope_bytes(client.service.f(t, {"owner": "me"}))
            root = xmlread.parse(env1)
            rnode = [n for n in xmlread.walk(root) if n["name"][1] == "r"]
            got = [(rnode[0].get("text"), dict((k[1], v) for k, v in rnode[0]["attrs"].items()))] if rnode else None
        except Exception as e:
            ctx.fail("a filled object of these shapes cannot be sent", meta, "%s: %s" % (type(e).__name__, e),
                     "a request", kind="special")
            continue
        wattrs = {attrs[0][0]: "USD"}
        for a, d in attrs[1:]:
            wattrs[a] = d if d is not None else ""       # '' is D29
        if got is None or got[0][0] != lex or {k: v for k, v in got[0][1].items() if v != ""} != \
                {k: v for k, v in wattrs.items() if v != ""}:
            ctx.fail("a filled simpleContent child is not sent as its text plus attributes", meta, got, [lex, wattrs],
                     kind="special")
        if xmlread.infoset(xmlread.parse(env1)) != xmlread.infoset(xmlread.parse(env2)):
            ctx.fail("the object created under a name shared by an element and a type does not fit the parameter "
                     "declared with the element (filled object and equivalent dict differ)", meta, env1.decode(),
                     env2.decode(), kind="special")


def derived_and_separator(ctx):
    """More shapes outside the family: a type derived by RESTRICTION that re-declares an inherited attribute with a
    new default (the derived declaration wins), an enumeration type that only aliases another one (every inherited
    value exposed), and the path separator: after factory.separator('/') a name containing '.' is a plain name and
    '/' walks the members."""
    T = "{%s}" % wsdlkit.TNS
    schema = ('<xsd:simpleType name="Color"><xsd:restriction base="xsd:string"><xsd:enumeration value="red"/>'
              '<xsd:enumeration value="green"/><xsd:enumeration value="blue"/></xsd:restriction></xsd:simpleType>'
              '<xsd:simpleType name="Shade"><xsd:restriction base="x:Color"/></xsd:simpleType>'
              '<xsd:simpleType name="Short"><xsd:restriction base="x:Color"><xsd:maxLength value="5"/></xsd:restriction>'
              '</xsd:simpleType>'
              '<xsd:complexType name="Base"><xsd:sequence><xsd:element name="a" type="xsd:string"/></xsd:sequence>'
              '<xsd:attribute name="k" type="xsd:string" default="7"/><xsd:attribute name="j" type="xsd:string" '
              'default="1"/></xsd:complexType>'
              '<xsd:complexType name="R"><xsd:complexContent><xsd:restriction base="x:Base"><xsd:sequence>'
              '<xsd:element name="a" type="xsd:string"/></xsd:sequence><xsd:attribute name="k" type="xsd:string" '
              'default="9"/></xsd:restriction></xsd:complexContent></xsd:complexType>'
              '<xsd:complexType name="Order.Part"><xsd:sequence><xsd:element name="p" type="xsd:string"/></xsd:sequence>'
              '</xsd:complexType><xsd:complexType name="Order"><xsd:sequence><xsd:element name="Part" type="x:R"/>'
              '</xsd:sequence></xsd:complexType><xsd:element name="f"><xsd:complexType><xsd:sequence>'
              '<xsd:element name="o" type="x:Order"/></xsd:sequence></xsd:complexType></xsd:element>')
    # enumeration facets are values, never members: a simpleContent type extending an enumeration and a child with an
    # inline enumeration hold nothing but their text value / attributes
    schema = schema.replace('<xsd:complexType name="Order.Part">',
                            '<xsd:complexType name="Weight"><xsd:simpleContent><xsd:extension base="x:Color">'
                            '<xsd:attribute name="n" type="xsd:int" default="1"/></xsd:extension></xsd:simpleContent>'
                            '</xsd:complexType><xsd:complexType name="Bare"><xsd:simpleContent><xsd:extension '
                            'base="x:Color"/></xsd:simpleContent></xsd:complexType><xsd:complexType name="BareBox">'
                            '<xsd:sequence><xsd:element name="b" type="x:Bare"/></xsd:sequence></xsd:complexType>'
                            '<xsd:complexType name="Box"><xsd:sequence><xsd:element name="w" '
                            'type="x:Weight"/><xsd:element name="u"><xsd:simpleType><xsd:restriction base="xsd:string">'
                            '<xsd:enumeration value="a"/><xsd:enumeration value="b"/></xsd:restriction></xsd:simpleType>'
                            '</xsd:element></xsd:sequence></xsd:complexType><xsd:complexType name="Order.Part">', 1)
    client = wsdlkit.client(wsdlkit.wsdl_doc(schema, "f", None), nosend=True)
    r_obj = {"__class__": "R", "a": None, "_k": "9", "_j": "1"}
    w_obj = {"__class__": "Weight", "value": None, "_n": "1"}
    want = [("Shade", {"__class__": T + "Shade", "red": "red", "green": "green", "blue": "blue"}),
            ("Short", {"__class__": T + "Short", "red": "red", "green": "green", "blue": "blue"}),
            ("Base", {"__class__": "Base", "a": None, "_k": "7", "_j": "1"}), ("R", r_obj),
            ("Order", {"__class__": "Order", "Part": r_obj}), ("Order.Part", r_obj), ("Weight", w_obj),
            ("Box", {"__class__": "Box", "w": w_obj, "u": {"__class__": "u"}}),
            # ... also when the extension adds no attribute at all: the text value is what the type holds
            ("Bare", {"__class__": "Bare", "value": None}),
            ("BareBox", {"__class__": "BareBox", "b": {"__class__": "Bare", "value": None}}),
            ("BareBox.b", {"__class__": "Bare", "value": None})]
    after = [("Order.Part", {"__class__": "Order.Part", "p": None}), ("Order/Part", r_obj),
             ("Order", {"__class__": "Order", "Part": r_obj})]
    for phase, names in (("separator '.'", want), ("separator '/'", after)):
        if phase.endswith("'/'"):
            client.factory.separator("/")
        pfx = [p_ for p_, u_ in client.sd[0].prefixes if u_ == wsdlkit.TNS]
        for name, exp in names:
            # under both spellings of the namespace: {uri}name and the client's own prefix for it
            for spelled in [T + name] + (["%s:%s" % (pfx[0], name)] if pfx else []):
                meta = {"stream": "derived-and-separator", "phase": phase, "name": spelled}
                ctx.case(common.canon(meta), True)
                try:
                    got = K.normal(client.factory.create(spelled))
                except Exception as e:
                    got = "%s: %s" % (type(e).__name__, e)
                exp_ = exp
                if spelled != T + name and isinstance(got, dict) and str(exp.get("__class__", "")).startswith("{"):
                    # (an enumeration object is named as it was asked for)
                    got, exp_ = dict(got, __class__=None), dict(exp, __class__=None)
                if not (isinstance(got, dict) and K.same_value(reorder_attrs(got), reorder_attrs(exp_))):
                    ctx.fail("factory object does not mirror the type's content model", meta, repr(got), repr(exp_),
                             kind="special")


def occurrences_roots_and_independence(ctx):
    """(a) repeating means maxOccurs > 1 or unbounded: absent, "1" and "0" give None, "2", "10" and "unbounded" give [];
    (b) a dotted path may start at a global element declared with a named type; (c) every create returns a fresh
    object: changing one (an enumeration included) does not show in the next one created under any spelling."""
    T = "{%s}" % wsdlkit.TNS
    schema = ('<xsd:simpleType name="Color"><xsd:restriction base="xsd:string"><xsd:enumeration value="red"/>'
              '<xsd:enumeration value="green"/></xsd:restriction></xsd:simpleType>'
              '<xsd:complexType name="Inner"><xsd:sequence><xsd:element name="z" type="xsd:string"/></xsd:sequence>'
              '</xsd:complexType>'
              '<xsd:complexType name="Occ"><xsd:sequence><xsd:element name="a" type="xsd:string"/>'
              '<xsd:element name="b" type="xsd:string" maxOccurs="1"/>'
              '<xsd:element name="c" type="xsd:string" minOccurs="0" maxOccurs="0"/>'
              '<xsd:element name="d" type="xsd:string" maxOccurs="2"/>'
              '<xsd:element name="e" type="xsd:string" minOccurs="0" maxOccurs="unbounded"/>'
              '<xsd:element name="g" type="xsd:string" minOccurs="0" maxOccurs="10"/>'
              '<xsd:element name="in" type="x:Inner"/><xsd:element name="ins" type="x:Inner" maxOccurs="3"/>'
              '</xsd:sequence></xsd:complexType><xsd:element name="order" type="x:Occ"/>'
              '<xsd:complexType name="Doc2"><xsd:sequence><xsd:element name="title" type="xsd:string"/></xsd:sequence>'
              '<xsd:attribute name="_rev" type="xsd:string" default="1"/><xsd:attribute name="id" type="xsd:string" '
              'default="7"/></xsd:complexType>'
              '<xsd:complexType name="WithAttr"><xsd:sequence><xsd:element name="a" type="xsd:string"/></xsd:sequence>'
              '<xsd:attribute name="code" type="xsd:string"/></xsd:complexType>'
              '<xsd:complexType name="WithBoth"><xsd:complexContent><xsd:extension base="x:WithAttr"><xsd:sequence>'
              '<xsd:element name="code" type="x:Inner"/></xsd:sequence></xsd:extension></xsd:complexContent>'
              '</xsd:complexType>'
              '<xsd:element name="f"><xsd:complexType><xsd:sequence><xsd:element name="o" type="x:Occ"/>'
              '</xsd:sequence></xsd:complexType></xsd:element>')
    client = wsdlkit.client(wsdlkit.wsdl_doc(schema, "f", None), nosend=True)
    inner = {"__class__": "Inner", "z": None}
    occ = {"__class__": "Occ", "a": None, "b": None, "c": None, "d": [], "e": [], "g": [], "in": inner, "ins": []}
    want = [("Occ", occ), ("order", occ), ("Occ.in", inner),
            ("order.in", inner), ("order.ins", inner), ("Inner", inner),
            # an inherited attribute and an element of the derived type share a name: the path names the element
            ("WithBoth.code", inner),
            # an attribute whose own name starts with an underscore is a member like any other attribute
            ("Doc2", {"__class__": "Doc2", "title": None, "__rev": "1", "_id": "7"})]
    for name, exp in want:
        meta = {"stream": "occurrences-and-roots", "name": name}
        ctx.case(common.canon(meta), True)
        try:
            got = K.normal(client.factory.create(T + name))
        except Exception as e:
            got = "%s: %s" % (type(e).__name__, e)
        if not (isinstance(got, dict) and K.same_value(got, exp)):
            ctx.fail("factory object does not mirror the type's content model", meta, repr(got), repr(exp), kind="special")
        elif "." not in name:
            # the members are members in every way the object offers: iteration, len, `in`
            o = client.factory.create(T + name)
            keys = sorted(k for k in exp if k != "__class__")
            seen = [sorted(k for k, _v in o), len(o), all(k in o for k in keys)]
            if seen != [keys, len(keys), True]:
                ctx.fail("a member of the created object is missing from its iteration / len / `in`", meta, seen,
                         [keys, len(keys), True], kind="special")
    # unknown names of every kind raise TypeNotFound (an attribute step written @name included)
    for name in ("Occ.@nosuch", "order.@nosuch", "Doc2.@nosuch", "Occ.in.@zz", "Occ.nosuch", "NoSuch.@id",
                 # an unknown step in the middle, followed by a name the last known node does have
                 "Occ.nosuch.in", "order.nosuch.in", "Occ.in.nosuch.z", "order.nosuch.nosuch.a", "Occ.nosuch.@id"):
        meta = {"stream": "unknown-names", "name": name}
        ctx.case(common.canon(meta), True)
        for spelled in (T + name, name):
            try:
                r = client.factory.create(spelled)
                got = "returned %r" % (K.normal(r),)
            except Exception as e:
                got = type(e).__name__
            if got != "TypeNotFound":
                ctx.fail("an unknown name does not raise TypeNotFound", dict(meta, spelled=spelled), got, "TypeNotFound",
                         kind="special")
    for name, spell2 in (("Color", "Color"), ("Color", "ns0:Color"), ("Occ", "Occ"), ("Inner", "order.in")):
        meta = {"stream": "fresh-objects", "name": name, "then": spell2}
        ctx.case(common.canon(meta), True)
        try:
            first = client.factory.create(T + name)
            ref = K.normal(client.factory.create(T + name)) if spell2 == name else None
            keys = [k for k, _v in first]
            for k in keys[:1]:
                setattr(first, k, "scribbled")
            for k in keys[1:2]:
                delattr(first, k)
            first.extra = ["x"]
            for k, v in first:
                if isinstance(v, list):
                    v.append("appended")
            second = client.factory.create(spell2 if ":" in spell2 else T + spell2)
            third = K.normal(client.factory.create(T + name))
            same_obj = second is first
            got = K.normal(second)
        except Exception as e:
            ctx.fail("factory.create raised for a name the WSDL defines", meta, "%s: %s" % (type(e).__name__, e),
                     "objects", kind="special")
            continue
        if same_obj or "extra" in got or "scribbled" in repr(got) or "appended" in repr(got) or \
                (ref is not None and not K.same_value(third, ref)):
            ctx.fail("a created object shows changes made to an object created earlier", meta, repr(got)[:600],
                     "a fresh object", kind="special")


def nested_children_like_their_type(ctx):
    """A complex child that create() builds inside its parent is an object of its type like one created by itself:
    the same members in the same order - also after a choice branch is filled in later and another deleted."""
    T = "{%s}" % wsdlkit.TNS
    schema = ('<xsd:complexType name="Nest"><xsd:sequence><xsd:element name="first" type="xsd:string"/>'
              '<xsd:choice><xsd:element name="p" type="xsd:string"/><xsd:element name="q" type="xsd:int"/></xsd:choice>'
              '<xsd:element name="last" type="xsd:string"/></xsd:sequence><xsd:attribute name="id" type="xsd:string"/>'
              '<xsd:attribute name="rev" type="xsd:int"/></xsd:complexType>'
              '<xsd:complexType name="Deep"><xsd:sequence><xsd:element name="nest" type="x:Nest"/></xsd:sequence>'
              '<xsd:attribute name="k" type="xsd:string"/></xsd:complexType>'
              '<xsd:complexType name="Outer2"><xsd:sequence><xsd:element name="head" type="xsd:string"/>'
              '<xsd:element name="nest" type="x:Nest"/><xsd:element name="deep" type="x:Deep"/></xsd:sequence></xsd:complexType>'
              '<xsd:element name="f"><xsd:complexType><xsd:sequence><xsd:element name="o" type="x:Outer2"/>'
              '</xsd:sequence></xsd:complexType></xsd:element>')
    client = wsdlkit.client(wsdlkit.wsdl_doc(schema, "f", None), nosend=True)

    def scenario(o, how):
        if how in ("fill-q", "fill-q-delete-first"):
            if "q" in o:
                del o.q
            o.q = 5
        if how == "fill-q-delete-first":
            del o.first
            o.first = "again"
        return [k for k, _v in o]
    for how in ("as-created", "fill-q", "fill-q-delete-first"):
        alone = scenario(client.factory.create(T + "Nest"), how)
        for where, get in (("Outer2.nest", lambda: client.factory.create(T + "Outer2").nest),
                           ("Outer2.deep.nest", lambda: client.factory.create(T + "Outer2").deep.nest),
                           ("Deep.nest", lambda: client.factory.create(T + "Deep").nest),
                           ("path Outer2.nest", lambda: client.factory.create(T + "Outer2.nest"))):
            meta = {"stream": "nested-like-their-type", "where": where, "how": how}
            ctx.case(common.canon(meta), True)
            try:
                got = scenario(get(), how)
            except Exception as e:
                got = "%s: %s" % (type(e).__name__, e)
            if got != alone:
                ctx.fail("factory object does not mirror the type's content model", meta, got, alone, kind="special")
    # ... and the request written from the filled parent has the members in the declared order
    o = client.factory.create(T + "Outer2")
    o.head, o.nest.first, o.nest.last, o.deep.nest.first, o.deep.nest.last = "h", "1", "3", "1", "3"
    for n in (o.nest, o.deep.nest):
        for k in ("p", "q"):
            if k in n:
                delattr(n, k)
        n.q = 2
    meta = {"stream": "nested-like-their-type", "where": "request"}
    ctx.case(common.canon(meta), True)
    try:
        from suds.sax.parser import Parser
        body = Parser().parse(string=wsdlkit.envelope_bytes(client.service.f(o))).root().getChild("Body")
        onode = body.children[0].children[0]
        got = [[c.name for c in onode.getChild("nest").children], [c.name for c in onode.getChild("deep").getChild("nest").children]]
    except Exception as e:
        got = "%s: %s" % (type(e).__name__, e)
    if got != [["first", "q", "last"]] * 2:
        ctx.fail("factory object does not mirror the type's content model", meta, got, [["first", "q", "last"]] * 2, kind="special")


def builtin_typed_names_and_bare_simple_content(ctx):
    """An element, a child or an attribute step whose type is a built-in is created as an object named after the
    ELEMENT / child / attribute (not after the built-in); a simpleContent type over a built-in that declares no
    attribute has no members at all, alone and as a pre-built child."""
    T = "{%s}" % wsdlkit.TNS
    schema = ('<xsd:complexType name="M0"><xsd:simpleContent><xsd:extension base="xsd:decimal"/></xsd:simpleContent>'
              '</xsd:complexType><xsd:complexType name="Occ2"><xsd:sequence><xsd:element name="a" type="xsd:string"/>'
              '<xsd:element name="m" type="x:M0"/></xsd:sequence><xsd:attribute name="id" type="xsd:boolean"/></xsd:complexType>'
              '<xsd:element name="H" type="xsd:string"/><xsd:element name="N" type="xsd:int"/><xsd:element name="f">'
              '<xsd:complexType><xsd:sequence><xsd:element name="o" type="x:Occ2"/></xsd:sequence></xsd:complexType></xsd:element>')
    c = wsdlkit.client(wsdlkit.wsdl_doc(schema, "f", None), nosend=True)
    want = {"M0": ["M0", []], "Occ2": ["Occ2", ["a", "m", "_id"]], "H": ["H", []], "N": ["N", []], "Occ2.a": ["a", []],
            "Occ2.@id": ["id", []], "Occ2.m": ["M0", []], "f.o": ["Occ2", ["a", "m", "_id"]], "f.o.m": ["M0", []]}
    for name, exp in want.items():
        meta = {"stream": "builtin-typed-names", "name": name}
        ctx.case(common.canon(meta), True)
        try:
            o = c.factory.create(T + name)
            got = [type(o).__name__, [str(k) for k, _v in o]]
        except Exception as e:
            got = "%s: %s" % (type(e).__name__, e)
        if got != exp:
            ctx.fail("factory object does not mirror the type's content model", meta, got, exp, kind="special")
    from harness.props import c07
    c07.attributes_inline_or_by_group(ctx)       # (member order of a type derived by extension from one with attributes)
    # a local element of a named type - in a schema block that is not the first - is found under its own qualified
    # name as well as by the dotted path (suds searches the content of the types when no global of the name exists)
    schema2 = ('<xsd:import namespace="urn:second"/><xsd:element name="f"><xsd:complexType><xsd:sequence><xsd:element '
               'name="o" type="s:Order" xmlns:s="urn:second"/></xsd:sequence></xsd:complexType></xsd:element>')
    second = ('<xsd:schema xmlns:xsd="http://www.w3.org/2001/XMLSchema" targetNamespace="urn:second" '
              'elementFormDefault="qualified"><xsd:complexType name="Order"><xsd:sequence><xsd:element name="shipTo">'
              '<xsd:complexType><xsd:sequence><xsd:element name="street" type="xsd:string"/></xsd:sequence></xsd:complexType>'
              '</xsd:element></xsd:sequence></xsd:complexType></xsd:schema>')
    c2 = wsdlkit.client(wsdlkit.wsdl_doc(schema2, "f", None, extra_schemas=second), nosend=True)
    for name, exp in (("{urn:second}shipTo", ["shipTo", ["street"]]), ("{urn:second}Order.shipTo", ["shipTo", ["street"]]),
                      ("{urn:second}nosuch", "TypeNotFound")):
        meta = {"stream": "local-element-by-name", "name": name}
        ctx.case(common.canon(meta), True)
        try:
            o = c2.factory.create(name)
            got = [type(o).__name__, [str(k) for k, _v in o]]
        except Exception as e:
            got = type(e).__name__
        if got != exp:
            ctx.fail("factory object does not mirror the type's content model", meta, got, exp, kind="special")


def blank_attrs(x):
    """'' -> None on attributes (the D29 difference), for the model correspondence only."""
    if isinstance(x, dict):
        return {k: (None if (k.startswith("_") and not k.startswith("__") and v == "") else blank_attrs(v))
                for k, v in x.items()}
    if isinstance(x, list):
        return [blank_attrs(v) for v in x]
    return x


def check_create(ctx, client, ident, rident, kind, name, expected, I, key, env, reqs, metas):
    import suds
    meta = {"iface": ident, "rendering": rident, "spelling": kind, "name": name}
    ctx.case(common.canon(meta), True)
    ctx.dist["spelling=" + kind] += 1
    try:
        obj = client.factory.create(name)
    except Exception as e:
        ctx.fail("factory.create raised for a name the WSDL defines", meta, "%s: %s" % (type(e).__name__, e),
                 repr(expected)[:800], kind="skeleton")
        return
    got = K.normal(obj)
    # element members must come in schema order; attributes are compared by name
    if not K.same_value(reorder_attrs(got), reorder_attrs(expected)):
        ctx.fail("factory object does not mirror the type's content model", meta, repr(got)[:1500],
                 repr(expected)[:1500], kind="skeleton", d29_only=only_empty_attr_diffs(reorder_attrs(got),
                                                                                     reorder_attrs(expected)))
    if rident == "canonical" and attr_orders(got) != attr_orders(expected):
        # the canonical rendering writes every attribute where the interface declares it (no attribute groups):
        # there the underscore members come in declaration order, inherited ones first
        ctx.fail("attribute members are not in declaration order (inherited first)", meta, attr_orders(got),
                 attr_orders(expected), kind="skeleton")
    if kind == "qualified":
        reqs.append({"op": "schema.skeleton", "env": env, "key": list(key)})
        metas.append((meta, SM.py_canon_suds(blank_attrs(got)), SM.py_canon_suds(expected)))


def attr_orders(x):
    """The sequences of attribute member names, object by object (document order)."""
    out = []
    if isinstance(x, dict):
        out.append([k for k in x if k.startswith("_") and not k.startswith("__")])
        for k, v in x.items():
            if not k.startswith("_"):
                out.extend(attr_orders(v))
    elif isinstance(x, list):
        for v in x:
            out.extend(attr_orders(v))
    return out


def reorder_attrs(x):
    """Attributes first (sorted by name), then element members in their own order."""
    if isinstance(x, dict):
        attrs = sorted(k for k in x if k.startswith("_") and not k.startswith("__"))
        rest = [k for k in x if not (k.startswith("_") and not k.startswith("__"))]
        return {k: reorder_attrs(x[k]) for k in attrs + rest}
    if isinstance(x, list):
        return [reorder_attrs(v) for v in x]
    return x


def filled_requests(ctx, client, ident, rident, I):
    for op in I["ops"]:
        if K.suds_unwraps(op):
            continue
        for case in range(ctx.pick(2, 4)):
            args = K.args_of(ident, I, op, case)
            if not any(isinstance(v, (dict, list)) for v in args.values()):
                continue
            meta = {"iface": ident, "rendering": rident, "op": op["name"], "case": case, "mode": "filled"}
            ctx.case(common.canon(meta), True)
            ctx.dist["filled-object requests"] += 1
            try:
                kw = {K.param_name(op, p): fill(client, I, p["type"], args[p["name"]]) for p in op["in"]
                      if p["name"] in args}
                if ORDER_ISSUES:
                    ctx.fail("the members of a filled factory object are not in schema order", meta, ORDER_ISSUES[0][:2],
                             ORDER_ISSUES[0][2], kind="filled-order")
                    del ORDER_ISSUES[:]
                env = wsdlkit.envelope_bytes(getattr(client.service, op["name"])(**kw))
                root, kids = K.body_children(env)
            except Exception as e:
                ctx.fail("sending a filled factory object raised", meta, "%s: %s" % (type(e).__name__, e),
                         "the request the equivalent dict gives", kind="filled-request")
                continue
            args2 = {p["name"]: with_defaults(I, p["type"], args[p["name"]]) for p in op["in"] if p["name"] in args}
            exp = IF.spec_request(I, op, args2)
            mism = []
            if len(exp) != len(kids):
                mism.append("Body has %d children, expected %d" % (len(kids), len(exp)))
            else:
                for a, b in zip(exp, kids):
                    K.match(a, b, "Body", mism)
            if mism:
                ctx.fail("a filled factory object is not sent like the equivalent dict", meta, mism[:8],
                         "the request the equivalent dict gives", kind="filled-request",
                         envelope=env.decode("utf-8", "replace")[:3000])


FLAVOUR_SCHEMAS = (
    '<xsd:schema xmlns:xsd="http://www.w3.org/2001/XMLSchema" xmlns:t="urn:t" xmlns:u="urn:u" targetNamespace="urn:t" '
    'elementFormDefault="qualified"><xsd:import namespace="urn:u"/><xsd:complexType name="Money"><xsd:simpleContent>'
    '<xsd:extension base="xsd:decimal"><xsd:attribute name="currency" type="xsd:string" default="EUR"/>'
    '</xsd:extension></xsd:simpleContent></xsd:complexType><xsd:complexType name="Invoice"><xsd:sequence>'
    '<xsd:element name="id" type="xsd:string"/><xsd:element name="Money"><xsd:complexType><xsd:sequence>'
    '<xsd:element name="amount" type="xsd:decimal"/><xsd:element name="parts" type="xsd:decimal" '
    'maxOccurs="unbounded"/></xsd:sequence></xsd:complexType></xsd:element></xsd:sequence></xsd:complexType>'
    '<xsd:element name="Req"><xsd:complexType><xsd:sequence><xsd:element name="total" type="t:Money"/>'
    '<xsd:element name="invoice" type="t:Invoice"/><xsd:element name="other" type="u:Money"/></xsd:sequence>'
    '</xsd:complexType></xsd:element></xsd:schema>'
    '<xsd:schema xmlns:xsd="http://www.w3.org/2001/XMLSchema" targetNamespace="urn:u" elementFormDefault="qualified">'
    '<xsd:complexType name="Money"><xsd:sequence><xsd:element name="units" type="xsd:int"/><xsd:element name="cents" '
    'type="xsd:int" minOccurs="0"/></xsd:sequence></xsd:complexType></xsd:schema>')


def flavour_probe(ctx):
    """Same local name, different flavour: a simpleContent type, an element-only type of another namespace and a
    local element with an anonymous type, all called Money; every creation order must give each its own shape."""
    w = ('<?xml version="1.0"?><wsdl:definitions targetNamespace="urn:t" xmlns:wsdl="%s" xmlns:t="urn:t" '
         'xmlns:soap="%s"><wsdl:types>%s</wsdl:types><wsdl:message name="fIn"><wsdl:part name="parameters" '
         'element="t:Req"/></wsdl:message><wsdl:portType name="PT"><wsdl:operation name="f"><wsdl:input '
         'message="t:fIn"/></wsdl:operation></wsdl:portType><wsdl:binding name="B" type="t:PT"><soap:binding '
         'style="document" transport="http://schemas.xmlsoap.org/soap/http"/><wsdl:operation name="f">'
         '<soap:operation soapAction="f"/><wsdl:input><soap:body use="literal"/></wsdl:input></wsdl:operation>'
         '</wsdl:binding><wsdl:service name="S"><wsdl:port name="P" binding="t:B"><soap:address '
         'location="http://x.invalid/"/></wsdl:port></wsdl:service></wsdl:definitions>'
         % (IF.WSDLNS, IF.SOAPNS, FLAVOUR_SCHEMAS)).encode()
    expected = {
        "{urn:t}Money": ["value", "_currency"],
        "{urn:u}Money": ["units", "cents"],
        "{urn:t}Invoice": ["id", "Money"],
        "{urn:t}Invoice.Money": ["amount", "parts"],
        "{urn:t}Req": ["total", "invoice", "other"],
    }
    import itertools
    import suds
    names = sorted(expected)
    orders = list(itertools.permutations(names))
    for order in (orders if not ctx.quick else orders[::7]):
        client = wsdlkit.client(w, nosend=True)
        for name in order:
            meta = {"stream": "same-name-flavours", "order": list(order), "name": name}
            ctx.case(common.canon(meta), True)
            ctx.dist["same-name-flavours"] += 1
            try:
                got = [k for k, _ in suds.sudsobject.items(client.factory.create(name))]
            except Exception as e:
                got = "%s: %s" % (type(e).__name__, e)
            if got != expected[name]:
                ctx.fail("same-named schema components of different kinds are not built each as its own shape",
                         meta, got, expected[name], kind="flavours")
                return


def widen(ctx):
    ctx.tier = "thorough"
    run(ctx)


def witness(ctx, k):
    import suds
    if (k.get("witness") or {}).get("kind") == "dotted-unknown-leaf":
        schema = ('<xsd:complexType name="T"><xsd:sequence><xsd:element name="m" type="xsd:int"/></xsd:sequence>'
                  '</xsd:complexType><xsd:element name="E" type="x:T"/>')
        c = wsdlkit.client(wsdlkit.wsdl_doc(schema, input="E"), nosend=True)
        try:
            c.factory.create("{%s}T.nope" % wsdlkit.TNS)
            return True
        except suds.TypeNotFound:
            return False
    if k.get("classifier") != "c03_empty_attr_default":
        return None
    schema = ('<xsd:complexType name="T"><xsd:sequence><xsd:element name="m" type="xsd:int"/></xsd:sequence>'
              '<xsd:attribute name="at" type="xsd:int"/></xsd:complexType><xsd:element name="E"><xsd:complexType>'
              '<xsd:sequence><xsd:element name="t" type="x:T"/></xsd:sequence></xsd:complexType></xsd:element>')
    c = wsdlkit.client(wsdlkit.wsdl_doc(schema, input="E"), nosend=True)
    o = c.factory.create("{%s}T" % wsdlkit.TNS)
    o.m = 5
    env = wsdlkit.envelope_bytes(c.service.f(o))
    return o._at == "" and b'at=""' in env


def replay(ctx, payload):
    f = payload.get("failure") or (payload.get("disagreement") or {})
    m = f.get("input") or {}
    if "iface" not in m:
        return {"fails": bool(f), "recorded": f}
    I0 = K.iface_of(m["iface"])
    I = with_op_types(I0)
    client = K.make_client(IF.render(K.rendering_of(m["rendering"], anonymous=False), I0))
    if "name" in m:
        try:
            got = repr(K.normal(client.factory.create(m["name"])))
        except Exception as e:
            got = "%s: %s" % (type(e).__name__, e)
        return {"fails": bool(f), "create": m["name"], "got": got[:3000], "recorded_expected": f.get("expected")}
    return {"fails": bool(f), "recorded": f}
