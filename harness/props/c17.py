"""C17 - SOAP headers and security tokens are sent as configured, every time."""
import copy
import datetime
import re

from harness import common, wsdlkit, xmlread

ID = "C17"
LEAN_MODULES = ["SudsModel.Props.C17"]
RULE = ("WSDLs with 0..3 declared header parts (simple and complex, each in its own namespace) x soapheaders shapes "
        "{single value, single Element, tuple/list of values and Elements in every mix up to length 4, dict over "
        "subsets of part names, empty containers} x WS-Security configurations (username token with nonce / created / "
        "digest / nonce encoding on or off, timestamp, arbitrary strings) x call sequences of length 1..4 reusing the "
        "same header objects; non-trivial = more than one entry or a mix of Elements and values; distinct = distinct "
        "(wsdl, soapheaders, wsse)"
        ' ; plus: reply-only header parts, two ports declaring different headers for one operation name, header namespaces without a prefix in scope, security timestamps in zones whose offset depends on the date'
        ' ; a header message named through a prefix only the wsdl:binding element declares'
        ' ; bare marker elements and empty children in caller-made headers'
        ' ; empty and falsy nonces; header parts declared by type'
        ' ; entries added to the soapheaders option and cleared'
        ' ; a Security object without tokens; LocalTimezone under a TZ with daylight saving'
        ' ; a header Element attached to the caller\'s document')
ASSUMPTIONS = ["a header value is a single value per declared part (list-valued header values are outside the "
               "property's alphabet: Binding.mkheader returns a list for them, see DESIGN.md D15)"]
PARTIAL = [{"theorem": "entry contents", "missing": "what each entry looks like (marshalled per schema, token children, "
            "dateTime forms) is checked on the implementation; the Lean model covers which entries appear and in which order"}]
TRUSTED = []

HNS = ["urn:h:a", "urn:h:b", "urn:h:c"]
WSSE = "http://docs.oasis-open.org/wss/2004/01/oasis-200401-wss-wssecurity-secext-1.0.xsd"
WSU = "http://docs.oasis-open.org/wss/2004/01/oasis-200401-wss-wssecurity-utility-1.0.xsd"
XSD_DT = re.compile(r"^-?\d{4,}-\d\d-\d\dT\d\d:\d\d:\d\d(\.\d+)?(Z|[-+]\d\d:\d\d)?$")


def make_wsdl(nparts, complex_idx, local_prefixes=False, soap12=False):
    """nparts header parts H0.. in namespaces HNS[i]; part complex_idx (if any) is a complex type.
    local_prefixes: no prefix for a header namespace is in scope of its schema (the schema uses it as its default
    namespace; the message part declares the prefix it needs on itself)."""
    extra = []
    for i in range(nparts):
        if i == complex_idx:
            body = ('<xsd:element name="H%d"><xsd:complexType><xsd:sequence><xsd:element name="a" type="xsd:string"/>'
                    '<xsd:element name="b" type="xsd:int" minOccurs="0"/></xsd:sequence></xsd:complexType></xsd:element>' % i)
        else:
            body = '<xsd:element name="H%d" type="xsd:string"/>' % i
        extra.append('<xsd:schema targetNamespace="%s" elementFormDefault="qualified" %s'
                     'xmlns:xsd="http://www.w3.org/2001/XMLSchema">%s</xsd:schema>'
                     % (HNS[i], 'xmlns="%s" ' % HNS[i] if local_prefixes else "", body))
    w = wsdlkit.wsdl_doc('<xsd:element name="f" type="xsd:string"/>', "f", None, extra_schemas="".join(extra),
                         header_parts=[("element", "h%d:H%d" % (i, i)) for i in range(nparts)], soap12=soap12).decode()
    if local_prefixes:
        for i in range(nparts):
            w = w.replace('<wsdl:part name="h" element="h%d:H%d"/>' % (i, i),
                          '<wsdl:part name="h" xmlns:h%d="%s" element="h%d:H%d"/>' % (i, HNS[i], i, i), 1)
        # ... and the binding names the header messages through a prefix that only the binding element declares
        if nparts and 'message="w:fHdr' in w:
            w = w.replace('message="w:fHdr', 'message="hb:fHdr').replace(
                '<wsdl:binding name="B"', '<wsdl:binding xmlns:hb="%s" name="B"' % wsdlkit.WNS, 1)
        return w.encode()
    decl = " ".join('xmlns:h%d="%s"' % (i, HNS[i]) for i in range(nparts))
    return w.replace("<wsdl:definitions ", "<wsdl:definitions %s " % decl, 1).encode()


def mk_element(k):
    from suds.sax.element import Element
    e = Element("Custom%d" % k, ns=("c%d" % k, "urn:custom:%d" % k))
    if k % 4 == 3:
        return e            # a bare marker: no attributes, no content (<c3:Custom3/>) - it is a header entry all the same
    e.set("id", "e%d" % k)
    c = Element("inner", ns=("c%d" % k, "urn:custom:%d" % k))
    c.setText("text<%d>&" % k)
    e.append(c)
    if k % 2:
        e.append(Element("flag", ns=("c%d" % k, "urn:custom:%d" % k)))      # an empty child is content too
    return e


def elem_infoset(e):
    return xmlread.infoset(xmlread.parse(e.plain()))


def shapes(rng, nparts, complex_idx, ctx):
    """Yield (python soapheaders value, model json, expected-values map)."""
    out = []

    def val_for(i, tag):
        if i == complex_idx:
            return {"a": "A" + tag, "b": 7}, "cx:" + tag
        if rng.random() < 0.25:
            return rng.choice([(0, "0"), ("", "")])      # falsy values are values
        return "v" + tag, "v" + tag
    # scalars
    out.append(("sv", {"scalar": "sv"}, None))
    out.append(("", {"scalar": ""}, None))
    out.append((mk_element(1), {"scalarElem": 1}, None))
    out.append(((), {"seq": []}, None))
    out.append(([], {"seq": []}, None))
    out.append(({}, {"dict": []}, None))
    # sequences
    for n in range(1, 5):
        for _ in range(ctx.pick(30, 150)):
            items, mj = [], []
            vcount = 0
            for j in range(n):
                if rng.random() < 0.4:
                    k = rng.randint(1, 3)
                    items.append(mk_element(k))
                    mj.append({"elem": k})
                else:
                    pv, label = val_for(vcount, "%d" % j) if vcount < nparts else ("surplus%d" % j, "surplus%d" % j)
                    if vcount < nparts and vcount == complex_idx:
                        pass
                    items.append(pv)
                    mj.append({"value": label})
                    vcount += 1
            out.append((tuple(items) if rng.random() < 0.5 else list(items), {"seq": mj}, None))
    # dicts over subsets of declared names (+ an undeclared key)
    names = ["H%d" % i for i in range(nparts)]
    for mask in range(1, 2 ** (nparts + 1)):
        d, mj = {}, []
        keys = [nm for i, nm in enumerate(names) if mask >> i & 1]
        if mask >> nparts & 1:
            keys.append("Undeclared")
        rng.shuffle(keys)
        for nm in keys:
            if nm == "Undeclared":
                d[nm], lab = "u", "u"
            else:
                d[nm], lab = val_for(int(nm[1:]), nm)
            mj.append([nm, lab])
        if d:
            out.append((d, {"dict": mj}, None))
    return out


def wsse_configs(rng, ctx):
    from suds.wsse import Security, UsernameToken, Timestamp
    cfgs = [None, (Security(), [])]          # (a configured Security object without tokens is a Security header all the same)
    for _ in range(ctx.pick(6, 40)):
        s = Security()
        spec = []
        for _t in range(rng.randint(1, 2)):
            if rng.random() < 0.7:
                u = rng.choice(["user", "ü\"<&>'", "", "a b"])
                p = rng.choice(["pw", "p&<w>", ""])
                t = UsernameToken(u, p)
                cfg = {"kind": "ut", "user": u, "password": p, "nonce": None, "created": False, "digest": None,
                       "enc": False}
                if rng.random() < 0.5:
                    if rng.random() < 0.5:
                        nv = rng.choice(["N0nce==", "N0nce==", "a&b<c>d", "x \"y\" 'z'", "", "0"])
                        t.setnonce(nv)
                        cfg["nonce"] = nv
                    else:
                        t.setnonce()
                        cfg["nonce"] = "*"
                if rng.random() < 0.5:
                    t.setcreated(rng.choice([None, datetime.datetime(2001, 2, 3, 4, 5, 6),
                                             datetime.datetime(1999, 12, 31, 23, 59, 59, 999999)]))
                    cfg["created"] = True
                if rng.random() < 0.3:
                    t.setpassworddigest("DIGEST+/=")
                    cfg["digest"] = "DIGEST+/="
                if rng.random() < 0.3:
                    t.setnonceencoding(True)
                    cfg["enc"] = True
                s.tokens.append(t)
                spec.append(cfg)
            else:
                s.tokens.append(Timestamp(rng.choice([90, 0, 3600])))
                spec.append({"kind": "ts"})
        cfgs.append((s, spec))
    return cfgs


def check_security(ctx, meta, node, spec):
    if node["name"] != (WSSE, "Security"):
        return ctx.fail("first header entry is not the Security element", meta, node["name"], "wsse:Security")
    toks = node["children"]
    if len(toks) != len(spec):
        return ctx.fail("Security does not carry exactly the configured tokens", meta, len(toks), len(spec))
    for t, cfg in zip(toks, spec):
        kids = {c["name"]: c for c in t["children"]}
        if cfg["kind"] == "ts":
            if t["name"] != (WSU, "Timestamp") or [c["name"][1] for c in t["children"]] != ["Created", "Expires"]:
                ctx.fail("Timestamp token malformed", meta, [c["name"] for c in t["children"]], "Created, Expires")
            for c in t["children"]:
                if not XSD_DT.match(c["text"]):
                    ctx.fail("timestamp is not a valid xsd:dateTime", meta, c["text"], "xsd:dateTime")
            continue
        if t["name"] != (WSSE, "UsernameToken"):
            ctx.fail("token element wrong", meta, t["name"], "UsernameToken")
            continue
        u = kids.get((WSSE, "Username"))
        p = kids.get((WSSE, "Password"))
        if u is None or u["text"] != cfg["user"]:
            ctx.fail("username not carried", meta, u and u["text"], cfg["user"])
        exp_pw = cfg["digest"] if cfg["digest"] else cfg["password"]
        if p is None or p["text"] != exp_pw:
            ctx.fail("password / digest not carried", meta, p and p["text"], exp_pw)
        elif ("PasswordDigest" in p["attrs"].get((None, "Type"), "")) != bool(cfg["digest"]):
            ctx.fail("password Type attribute wrong", meta, p["attrs"], "Digest" if cfg["digest"] else "Text")
        n = kids.get((WSSE, "Nonce"))
        if (n is not None) != (cfg["nonce"] is not None):
            ctx.fail("nonce presence wrong", meta, n is not None, cfg["nonce"])
        elif n is not None:
            if cfg["nonce"] != "*" and (n["text"] or "") != cfg["nonce"]:
                ctx.fail("nonce text wrong", meta, n["text"], cfg["nonce"])
            if ((None, "EncodingType") in n["attrs"]) != cfg["enc"]:
                ctx.fail("nonce EncodingType wrong", meta, n["attrs"], cfg["enc"])
        cr = kids.get((WSU, "Created"))
        if (cr is not None) != cfg["created"]:
            ctx.fail("created presence wrong", meta, cr is not None, cfg["created"])
        elif cr is not None and not XSD_DT.match(cr["text"]):
            ctx.fail("created is not a valid xsd:dateTime", meta, cr["text"], "xsd:dateTime")


def run(ctx):
    rng = ctx.rng
    reqs, reals, metas = [], [], []
    for nparts in range(0, 4):
        for complex_idx in ([None] + list(range(nparts)))[:ctx.pick(2, 4)]:
            w = make_wsdl(nparts, complex_idx, local_prefixes=rng.random() < 0.4, soap12=rng.random() < 0.3)
            wcfgs = wsse_configs(rng, ctx)
            for pyval, mj, _ in shapes(rng, nparts, complex_idx, ctx):
                wc = rng.choice(wcfgs)
                kw = {"soapheaders": pyval}
                if wc is not None:
                    kw["wsse"] = wc[0]
                try:
                    c = wsdlkit.client(w, nosend=True, **kw)
                except Exception as e:
                    ctx.fail("client rejected a soapheaders value", {"soapheaders": repr(pyval)}, repr(e), "accepted")
                    continue
                # snapshot caller-side Elements
                elems = []
                if isinstance(pyval, (list, tuple)):
                    elems = [x for x in pyval if hasattr(x, "plain")]
                elif hasattr(pyval, "plain"):
                    elems = [pyval]
                before = [e.plain() for e in elems]
                before_links = [(e.parent, [id(ch) for ch in e.children]) for e in elems]
                envs = []
                err = None
                for _call in range(rng.randint(1, 4)):
                    try:
                        envs.append(wsdlkit.envelope_bytes(c.service.f("x")))
                    except Exception as e:
                        err = repr(e)
                        break
                after = [e.plain() for e in elems]
                after_links = [(e.parent, [id(ch) for ch in e.children]) for e in elems]
                meta = {"nparts": nparts, "complex": complex_idx, "soapheaders": repr(pyval)[:300], "model": mj,
                        "wsse": None if wc is None else wc[1]}
                reqs.append({"op": "headers.content", "parts": ["H%d" % i for i in range(nparts)],
                             "wsse": wc is not None, "h": mj})
                reals.append((envs, err, before == after and before_links == after_links, elems, wc))
                metas.append(meta)
    answers = ctx.driver.ask(reqs)
    for meta, (envs, err, untouched, elems, wc), ans in zip(metas, reals, answers):
        ctx.case(common.digest(meta), True)
        if err is not None:
            ctx.fail("invocation failed for a soapheaders value", meta, err, "a request")
            continue
        if not untouched:
            ctx.fail("the caller's header Elements were altered by the call", meta, "changed", "unchanged")
        hdrs = []
        for env in envs:
            try:
                root = xmlread.parse(env)
            except xmlread.XmlError as e:
                ctx.fail("request not namespace-well-formed", meta, str(e), "well-formed")
                hdrs = None
                break
            hdrs.append(xmlread.find1(root, "Header"))
        if hdrs is None:
            continue
        infos = [[xmlread.infoset(ch) for ch in h["children"]] for h in hdrs]
        # repeating the call sends the same headers (tokens with a generated nonce / timestamps aside)
        plain = [[i for i in inf if i["name"] != [WSSE, "Security"]] for inf in infos]
        if any(p != plain[0] for p in plain):
            ctx.fail("repeating the call changed the headers", meta, plain[-1], plain[0])
        if ans is None:
            continue
        real_entries = []
        h = hdrs[0]
        for ch in h["children"]:
            nm = ch["name"]
            if nm == (WSSE, "Security"):
                real_entries.append(["security"])
            elif nm[0] and nm[0].startswith("urn:custom:"):
                k = int(nm[0].rsplit(":", 1)[1])
                if xmlread.infoset(ch) != elem_infoset(mk_element(k)):
                    ctx.fail("ready-made element not included verbatim", meta, xmlread.infoset(ch),
                             elem_infoset(mk_element(k)))
                real_entries.append(["copy", k])
            elif nm[0] in HNS and nm[1] == "H%d" % HNS.index(nm[0]):
                i = HNS.index(nm[0])
                if ch["children"]:
                    kids = {c["name"][1]: c["text"] for c in ch["children"]}
                    lab = "cx:" + kids.get("a", "?")[1:] if kids.get("b") == "7" and \
                        all(c["name"][0] == nm[0] for c in ch["children"]) else "cx-bad:%r" % kids
                else:
                    lab = ch["text"]
                real_entries.append(["part", i, lab])
            else:
                real_entries.append(["unexpected", list(nm)])
        ctx.dist["entries=%d" % len(real_entries)] += 1
        if not ctx.compare("headercontent", meta, real_entries, ans):
            ctx.fail("Header does not hold exactly the configured entries", meta, real_entries, ans)
            continue
        if wc is not None:
            check_security(ctx, meta, h["children"][0], wc[1])
    declared_elsewhere(ctx)
    unconfigured(ctx)
    header_elements_stay_where_they_are(ctx)
    zoned_timestamps(ctx)
    header_parts_declared_by_type(ctx)
    ctx.sample(metas[3] if len(metas) > 3 else metas[0])
    ctx.sample(metas[-1])


def header_names(env):
    h = xmlread.find1(xmlread.parse(env), "Header")
    return [[c["name"][1], c.get("text")] for c in (h["children"] if h is not None else [])]


def unconfigured(ctx):
    """A client that never configured soapheaders (or cleared them with None) sends no header entry at all for the
    declared parts; configuring and clearing again gives the same."""
    for nparts in (1, 2):
        w = make_wsdl(nparts, None)
        for how in ("never", "none-at-construction", "set-then-none", "set-then-empty", "added-to-then-none",
                    "added-to-twice-then-none"):
            meta = {"stream": "unconfigured", "declared_parts": nparts, "how": how}
            ctx.case(common.canon(meta), True)
            try:
                if how == "never":
                    c = wsdlkit.client(w, nosend=True)
                elif how == "none-at-construction":
                    c = wsdlkit.client(w, nosend=True, soapheaders=None)
                elif how.startswith("added-to"):
                    # entries added to whatever the option holds (`+=`), later cleared with None
                    c = wsdlkit.client(w, nosend=True)
                    c.options.soapheaders += (mk_element(1),)
                    if "twice" in how:
                        c.options.soapheaders += (mk_element(2),)
                    sent = header_names(wsdlkit.envelope_bytes(c.service.f("x")))
                    if len(sent) != (2 if "twice" in how else 1):
                        ctx.fail("entries added to the soapheaders option are not sent", meta, sent, "the added entries")
                    c.options.soapheaders = None
                else:
                    c = wsdlkit.client(w, nosend=True, soapheaders=("v",))
                    c.service.f("x")
                    c.set_options(soapheaders=None if how == "set-then-none" else ())
                got = header_names(wsdlkit.envelope_bytes(c.service.f("x")))
            except Exception as e:
                got = repr(e)
            if got != []:
                ctx.fail("a client without configured soapheaders sends header entries", meta, got, [])


def header_elements_stay_where_they_are(ctx):
    """A ready-made header Element that hangs in a document of the caller's is copied into each request: it stays
    attached to its parent, at its place, with its content - request after request."""
    from suds.sax.element import Element
    w = make_wsdl(1, None)
    doc = Element("config")
    before, h, after = Element("before"), mk_element(1), Element("after")
    for n in (before, h, after):
        doc.append(n)
    meta = {"stream": "attached-header-element"}
    ctx.case(common.canon(meta), True)
    try:
        c = wsdlkit.client(w, nosend=True, soapheaders=("v", h))
        sent = [header_names(wsdlkit.envelope_bytes(c.service.f("x"))) for _ in range(2)]
        got = [[len(s_) for s_ in sent], h.parent is doc, [k.name for k in doc.children], len(h.children)]
    except Exception as e:
        got = repr(e)
    want = [[2, 2], True, ["before", "Custom1", "after"], 2]
    if got != want:
        ctx.fail("sending a ready-made header Element changed the caller's own document (or the entry was not sent)",
                 meta, got, want)


def declared_elsewhere(ctx):
    """Header parts are the ones declared for THIS operation's INPUT on THIS port's binding:
    (a) a soap:header under wsdl:output (a reply header) is never sent with the request, whatever soapheaders holds;
    (b) two ports whose bindings declare different headers for a same-named operation each send their own, in any
        order of calls on one client."""
    rng = ctx.rng
    schema = ('<xsd:element name="f" type="xsd:string"/><xsd:element name="fResponse" type="xsd:string"/>'
              '<xsd:element name="H" type="xsd:string"/><xsd:element name="R" type="xsd:string"/>'
              '<xsd:element name="G" type="xsd:string"/>')
    base = wsdlkit.wsdl_doc(schema, "f", "fResponse", header_parts=[("element", "x:H")]).decode()
    out_hdr = ('<wsdl:output><soap:body use="literal"/><soap:header message="w:fHdrR" part="h" use="literal"/>'
               '</wsdl:output>')
    w = base.replace('<wsdl:output><soap:body use="literal"/></wsdl:output>', out_hdr, 1)
    w = w.replace('<wsdl:portType', '<wsdl:message name="fHdrR"><wsdl:part name="h" element="x:R"/></wsdl:message>'
                  '<wsdl:portType', 1)
    # the same with no input header at all
    w0 = w.replace('<soap:header message="w:fHdr0" part="h" use="literal"/>', "", 1)
    for doc, declared in ((w, ["H"]), (w0, [])):
        for value in (("hv",), ("hv", "surplus"), {"H": "hv", "R": "rv"}, {"R": "rv"}, "single", ()):
            meta = {"stream": "output-headers", "input_header_parts": declared, "soapheaders": repr(value)}
            ctx.case(common.canon(meta), True)
            try:
                c = wsdlkit.client(doc.encode(), nosend=True, soapheaders=value)
                got = header_names(wsdlkit.envelope_bytes(c.service.f("x")))
            except Exception as e:
                ctx.fail("invocation failed for a soapheaders value", meta, repr(e), "a request")
                continue
            if isinstance(value, dict):
                exp = [[n, value[n]] for n in declared if n in value]
            elif isinstance(value, tuple):
                exp = [[n, v] for n, v in zip(declared, value)]
            else:
                exp = [[declared[0], value]] if declared else []
            if got != exp:
                ctx.fail("the request carries a header the operation's input does not declare (or misses one)", meta,
                         got, exp)
    # (b) two ports, same operation name, different header declarations
    two = base.replace('<wsdl:message name="fHdr0">', '<wsdl:message name="fHdrG"><wsdl:part name="h" element="x:G"/>'
                       '</wsdl:message><wsdl:message name="fHdr0">', 1)
    b1 = two[two.index('<wsdl:binding name="B"'):two.index('</wsdl:binding>') + len('</wsdl:binding>')]
    b2 = b1.replace('name="B"', 'name="B2"').replace('w:fHdr0', 'w:fHdrG')
    b3 = b1.replace('name="B"', 'name="B3"').replace('<soap:header message="w:fHdr0" part="h" use="literal"/>', "")
    two = two.replace(b1, b1 + b2 + b3, 1)
    two = two.replace('<wsdl:port name="P" binding="w:B">', '<wsdl:port name="P2" binding="w:B2"><soap:address '
                      'location="http://verif.invalid/p2"/></wsdl:port><wsdl:port name="P3" binding="w:B3"><soap:address '
                      'location="http://verif.invalid/p3"/></wsdl:port><wsdl:port name="P" binding="w:B">', 1)
    want = {"P": [["H", "hv"]], "P2": [["G", "gv"]], "P3": []}
    for _ in range(ctx.pick(6, 60)):
        c = wsdlkit.client(two.encode(), nosend=True, soapheaders={"H": "hv", "G": "gv"})
        seq = [rng.choice(["P", "P2", "P3"]) for _k in range(rng.randint(2, 5))]
        meta = {"stream": "two-ports", "calls": seq}
        ctx.case(common.canon(meta), True)
        for k, port in enumerate(seq):
            try:
                got = header_names(wsdlkit.envelope_bytes(c.service[port].f("x")))
            except Exception as e:
                ctx.fail("invocation failed", dict(meta, at=k), repr(e), want[port])
                break
            if got != want[port]:
                ctx.fail("a call through one port carries the header parts declared for another port's operation",
                         dict(meta, at=k), got, want[port])
                break


class DstZone(datetime.tzinfo):
    """A zone whose offset depends on the moment (like every zoneinfo zone): no offset without a date."""

    def utcoffset(self, dt):
        if dt is None:
            return None
        return datetime.timedelta(hours=2 if 4 <= dt.month <= 9 else 1)

    def dst(self, dt):
        return None if dt is None else datetime.timedelta(hours=1 if 4 <= dt.month <= 9 else 0)

    def tzname(self, dt):
        return "DST"


def zoned_timestamps(ctx):
    """Created / Expires carry the instant that was configured, also for zones whose offset depends on the date."""
    from suds.wsse import Security, UsernameToken, Timestamp
    w = make_wsdl(0, None)
    # (the library's own zone object for "the local time of this machine", in a process whose local time has daylight
    # saving: TZ is set for the duration of this stream and restored)
    import os
    import time
    from suds.sax.date import LocalTimezone
    old_tz = os.environ.get("TZ")
    os.environ["TZ"] = "CET-1CEST,M3.5.0,M10.5.0/3"
    time.tzset()
    try:
        local = [(datetime.datetime(2001, 7, 3, 4, 5, 6, tzinfo=LocalTimezone()), "2001-07-03T04:05:06+02:00"),
                 (datetime.datetime(2001, 1, 3, 4, 5, 6, tzinfo=LocalTimezone()), "2001-01-03T04:05:06+01:00"),
                 (datetime.datetime(2001, 10, 28, 12, 0, 0, tzinfo=LocalTimezone()), "2001-10-28T12:00:00+01:00"),
                 (datetime.datetime(2001, 3, 25, 12, 0, 0, tzinfo=LocalTimezone()), "2001-03-25T12:00:00+02:00")]
        _zoned(ctx, w, local, "LocalTimezone under TZ=CET/CEST")
    finally:
        if old_tz is None:
            os.environ.pop("TZ", None)
        else:
            os.environ["TZ"] = old_tz
        time.tzset()
    _zoned(ctx, w, ((datetime.datetime(2001, 7, 3, 4, 5, 6, tzinfo=DstZone()), "2001-07-03T04:05:06+02:00"),
                    (datetime.datetime(2001, 1, 3, 4, 5, 6, tzinfo=DstZone()), "2001-01-03T04:05:06+01:00"),
                    (datetime.datetime(2001, 1, 3, 4, 5, 6, tzinfo=datetime.timezone(datetime.timedelta(hours=-5))),
                     "2001-01-03T04:05:06-05:00")), "tzinfo objects")


def _zoned(ctx, w, cases, label):
    from suds.wsse import Security, UsernameToken, Timestamp
    for dt, text in cases:
        meta = {"stream": "zoned-timestamps", "zone": label, "created": dt.isoformat()}
        ctx.case(common.canon(meta), True)
        s = Security()
        t = UsernameToken("u", "p")
        t.setcreated(dt)
        s.tokens.append(t)
        ts = Timestamp(60)
        ts.created = dt
        ts.expires = dt + datetime.timedelta(seconds=60)
        s.tokens.append(ts)
        try:
            c = wsdlkit.client(w, nosend=True, wsse=s)
            root = xmlread.parse(wsdlkit.envelope_bytes(c.service.f("x")))
        except Exception as e:
            ctx.fail("invocation failed with a zoned timestamp", meta, repr(e), "a request")
            continue
        created = [n.get("text") for n in xmlread.walk(root) if n["name"] == (WSU, "Created")]
        expires = [n.get("text") for n in xmlread.walk(root) if n["name"] == (WSU, "Expires")]
        exp_exp = text[:17] + "%02d" % (int(text[17:19])) + text[19:]
        if created != [text, text] or len(expires) != 1 or not expires[0].endswith(text[19:]):
            ctx.fail("a security timestamp does not carry the configured instant (zone offset lost or changed)", meta,
                     {"Created": created, "Expires": expires}, {"Created": [text, text], "Expires offset": text[19:]})


def header_parts_declared_by_type(ctx):
    """A soap:header whose message part is declared with type= (not element=): the entry is named after the part
    and, like an rpc part accessor, in no namespace - under every way of giving the value."""
    w = wsdlkit.wsdl_doc('<xsd:element name="f" type="xsd:string"/>', "f", None,
                         header_parts=[("type", "xsd:string"), ("element", "x:f")])
    for label, hv in (("scalar", "tv"), ("tuple", ("tv", "ev")), ("dict", {"h": "tv"})):
        for prefixes in (True, False):
            meta = {"stream": "header-part-by-type", "soapheaders": label, "prefixes": prefixes}
            ctx.case(common.canon(meta), True)
            try:
                env = wsdlkit.envelope_bytes(wsdlkit.client(w, nosend=True, soapheaders=hv, prefixes=prefixes).service.f("v"))
                hdr = xmlread.find1(xmlread.parse(env), "Header")
                got = [[list(c["name"]), c.get("text")] for c in hdr["children"]][:1]
            except Exception as e:
                got = "%s: %s" % (type(e).__name__, e)
            if got != [[[None, "h"], "tv"]]:
                ctx.fail("a header part declared by type is not sent as the unqualified part accessor", meta, got,
                         [[[None, "h"], "tv"]])


def widen(ctx):
    ctx.tier = "thorough"
    run(ctx)


def replay(ctx, payload):
    return {"fails": bool(payload.get("failure")), "recorded": payload.get("failure")}
