"""C11 - The cache never changes what a client does."""
import datetime
import itertools
import multiprocessing
import os
import pickle
import shutil
import tempfile
import time

from harness import common, wsdlkit, xmlread

ID = "C11"
LEAN_MODULES = ["SudsModel.Props.C11"]
RULE = ("(1) histories of put/get/purge/clear/clock-advance/reopen/foreign-version/tear/vanish over 3 ids and 2 "
        "instances (durations 0 and 5 s) sharing a directory, for ObjectCache and DocumentCache, with a patched clock "
        "and ctime: exhaustive to length 3 (4 thorough) over 2 ids, random to length 12; (2) crash sweep: cached "
        "documents and pickled WSDL objects truncated at byte offsets (all offsets of small entries, sampled for "
        "large) and with zero-filled tails; (3) 4 (16 thorough) processes doing random put/get/purge/clear on shared "
        "ids; (4) write failures: location under a regular file, open/write/close raising; (5) cold vs warm clients x "
        "cachingpolicy {0,1} x cache class x changed options with a counting store; non-trivial = history with a "
        "tear/expiry/foreign version, or any crash point; distinct = distinct histories / (entry, offset)"
        ' ; plus: a reference-holding cache, warm clients built with other binding-level options, cached documents with a childless root'
        ' ; entries that open but fail at read, expired entries that cannot be deleted, a cache folder whose name holds glob metacharacters'
        ' ; long reader-style ids sharing most of their characters'
        ' ; expiry on the real clock; suds text objects through the object cache; WSDLs at file: URLs'
        ' ; a sub-folder named like an entry; a WSDL not served past the duration of the cache it was given'
        ' ; durations the cache has; endpoints of warm clients; names outside ASCII; warm clients over interfaces of the generated family'
        ' ; the cold load stores what the policy says; xstq of warm clients'
        ' ; locations differing outside ASCII')
ASSUMPTIONS = ["pickle and expat reject every proper prefix and zero-filled prefix of an entry (validated by the sweep)",
               "hashlib.md5 does not collide on the URLs used"]
PARTIAL = [{"theorem": "interleaved_get_sound", "missing": "under concurrent writers only 'a value some process stored "
            "under that id, or nothing, never an exception' is checked (by the multi-process stress); the OS may split writes"}]
TRUSTED = ["pickle, expat, the file system (open('wb') truncation, os.remove)"]

EPOCH = 1000000000.0


class Clock:
    def __init__(self):
        self.t = 0
        self.ctimes = {}


def patched(clock):
    """Context manager: suds.cache sees our clock and our ctime table."""
    import suds.cache
    real_dt = datetime.datetime

    class FakeDateTime(real_dt):
        @classmethod
        def now(cls, tz=None):
            return real_dt.fromtimestamp(EPOCH + clock.t)

    class Shim:
        timedelta = datetime.timedelta
        datetime = FakeDateTime

    class Ctx:
        def __enter__(self):
            self.old_dt = suds.cache.datetime
            self.old_ct = os.path.getctime
            suds.cache.datetime = Shim

            def getctime(path):
                if not os.path.exists(path):
                    raise FileNotFoundError(path)
                return EPOCH + clock.ctimes.get(os.path.abspath(path), 0)
            os.path.getctime = getctime
            return self

        def __exit__(self, *a):
            suds.cache.datetime = self.old_dt
            os.path.getctime = self.old_ct
    return Ctx()


def entry_files(d):
    out = []
    for fn in os.listdir(d):
        if fn.startswith("suds-"):
            out.append(fn[5:].rsplit(".", 1)[0])
    return sorted(out)


def mk_value(kind, n):
    if kind == "object":
        return {"obj": n, "payload": ["x" * 50, n]}
    from suds.sax.parser import Parser
    return Parser().parse(string=("<d n='%d'><c>text %d</c></d>" % (n, n)).encode())


def value_id(kind, v):
    if v is None:
        return None
    try:
        if kind == "object":
            return v["obj"]
        return int(v.root().get("n"))
    except Exception as e:
        return "garbled:%r" % (e,)


def run_history(kind, ops, workdir):
    """Execute ops on real caches; returns per-op (ret, listing)."""
    import suds
    import suds.cache
    cls = suds.cache.ObjectCache if kind == "object" else suds.cache.DocumentCache
    d = tempfile.mkdtemp(dir=workdir)
    clock = Clock()
    out = []
    suffix = "px" if kind == "object" else "xml"

    def path(i):
        return os.path.join(d, "suds-%s.%s" % (i, suffix))
    with patched(clock):
        inst = {0: cls(location=d), 5: cls(location=d, seconds=5)}
        for op in ops:
            ret = None
            k = op["op"]
            try:
                if k == "put":
                    inst[op.get("via", 0)].put(op["id"], mk_value(kind, op["obj"]))
                    clock.ctimes[os.path.abspath(path(op["id"]))] = clock.t
                elif k == "get":
                    ret = value_id(kind, inst[op["duration"]].get(op["id"]))
                elif k == "purge":
                    inst[0].purge(op["id"])
                elif k == "clear":
                    inst[0].clear()
                elif k == "advance":
                    clock.t += op["dt"]
                elif k == "reopen":
                    inst = {0: cls(location=d), 5: cls(location=d, seconds=5)}
                elif k == "stamp":
                    with open(os.path.join(d, "version"), "w") as f:
                        f.write(real_stamp(op["version"]))
                elif k == "tear":
                    p = path(op["id"])
                    if os.path.exists(p):
                        data = open(p, "rb").read()
                        n = op["at"] % max(1, len(data))
                        with open(p, "wb") as f:
                            f.write(data[:n] + (b"\0" * (len(data) - n) if op.get("zero") else b""))
                elif k == "vanish":
                    p = path(op["id"])
                    if os.path.exists(p):
                        os.remove(p)
            except Exception as e:
                ret = "raised:%s" % type(e).__name__
            out.append({"ret": ret, "files": entry_files(d)})
    shutil.rmtree(d, ignore_errors=True)
    return out


def real_stamp(v):
    """'@+x' stands for the running version followed by x (a foreign stamp that merely extends ours)."""
    import suds
    return suds.__version__ + v[2:] if v.startswith("@+") else v


def model_ops(ops):
    import suds
    res = []
    for op in ops:
        o = dict(op)
        if o["op"] == "reopen":
            o["version"] = suds.__version__
        if o["op"] == "stamp":
            o["version"] = real_stamp(o["version"])
        res.append(o)
    return res


def histories(ctx, workdir):
    rng = ctx.rng
    ids = ["a", "b"]
    atoms = []
    for i in ids:
        atoms += [{"op": "put", "id": i, "obj": 1}, {"op": "put", "id": i, "obj": 2, "via": 5},
                  {"op": "get", "id": i, "duration": 0}, {"op": "get", "id": i, "duration": 5},
                  {"op": "purge", "id": i}, {"op": "tear", "id": i, "at": 7}, {"op": "tear", "id": i, "at": 40, "zero": True},
                  {"op": "vanish", "id": i}]
    atoms += [{"op": "clear"}, {"op": "advance", "dt": 3}, {"op": "advance", "dt": 6}, {"op": "reopen"},
              {"op": "stamp", "version": "0.0-foreign"}, {"op": "stamp", "version": "@+.post1"}]
    depth = ctx.pick(3, 4)
    seqs = []
    budget = ctx.pick(2500, 60000)
    allseq = itertools.product(atoms, repeat=depth)
    total = len(atoms) ** depth
    for seq in allseq:
        if total > budget and rng.random() > budget / float(total):
            continue
        # every history ends with reads of both ids through both instances
        seqs.append([dict(x) for x in seq] + [{"op": "get", "id": i, "duration": dd} for i in ids for dd in (0, 5)])
    for _ in range(ctx.pick(300, 6000)):
        L = rng.randint(5, 12)
        seq = []
        for _i in range(L):
            a = dict(rng.choice(atoms))
            if a["op"] == "put":
                a["obj"] = rng.randint(1, 9)
                a["id"] = rng.choice(["a", "b", "c"])
            if a["op"] == "tear":
                a["at"] = rng.randint(0, 400)
            seq.append(a)
        seqs.append(seq + [{"op": "get", "id": i, "duration": dd} for i in ("a", "b", "c") for dd in (0, 5)])
    for kind in ("object", "document"):
        reals = [run_history(kind, s, workdir) for s in seqs]
        answers = ctx.driver.ask([{"op": "cache.run", "ops": [{"op": "reopen", "version": __import__("suds").__version__}] + model_ops(s)}
                                  for s in seqs])
        for s, real, ans in zip(seqs, reals, answers):
            inp = {"kind": kind, "ops": s}
            nontrivial = any(o["op"] in ("tear", "stamp", "advance", "vanish") for o in s)
            ctx.case(common.digest(inp), nontrivial)
            for o in s:
                ctx.dist["op=" + o["op"]] += 1
            raised = [r for r in real if isinstance(r["ret"], str) and r["ret"].startswith("raised")]
            if raised:
                ctx.fail("a cache operation raised", inp, raised[0], "no exception")
                continue
            garbled = [r for r in real if isinstance(r["ret"], str)]
            if garbled:
                ctx.fail("a lookup returned a partial or different object", inp, garbled[0], "None or the stored object")
                continue
            if ans is None:
                continue
            model = ans[1:]
            if not ctx.compare("cache-history/" + kind, inp, real, model):
                k = next(i for i, (a, b) in enumerate(zip(real, model)) if a != b)
                ctx.fail("cache differs from the map-based reference at step %d (%s)" % (k, s[k]["op"]),
                         dict(inp, ops=s[:k + 1]), real[k], model[k])


def sweep(ctx, workdir):
    """Every crash point of real entries: truncations and zero-filled tails."""
    import suds.cache
    import suds.client
    import suds.store
    rng = ctx.rng
    schema = ('<xsd:element name="f"><xsd:complexType><xsd:sequence><xsd:element name="a" type="xsd:string"/>'
              '<xsd:element name="b" type="xsd:int" minOccurs="0"/></xsd:sequence></xsd:complexType></xsd:element>')
    w = wsdlkit.wsdl_doc(schema, "f", None)
    entries = []
    d0 = tempfile.mkdtemp(dir=workdir)
    store = suds.store.DocumentStore()
    store.update({"main.wsdl": w})
    suds.client.Client("suds://main.wsdl", documentStore=store, cache=suds.cache.DocumentCache(location=d0), cachingpolicy=0)
    suds.client.Client("suds://main.wsdl", documentStore=store, cache=suds.cache.ObjectCache(location=d0), cachingpolicy=1)
    oc = suds.cache.ObjectCache(location=d0)
    oc.put("small", {"k": [1, 2, 3], "s": "text"})
    dc = suds.cache.DocumentCache(location=d0)
    dc.put("tiny", mk_value("document", 5))
    for fn in sorted(os.listdir(d0)):
        if fn.startswith("suds-"):
            entries.append((fn, open(os.path.join(d0, fn), "rb").read()))
    for fn, data in entries:
        ident, suffix = fn[5:].rsplit(".", 1)
        cls = suds.cache.ObjectCache if suffix == "px" else suds.cache.DocumentCache
        n = len(data)
        if n <= ctx.pick(400, 3000):
            offsets = list(range(0, n))
        else:
            offsets = sorted(set(rng.sample(range(0, n), ctx.pick(250, 2500)) + list(range(0, 40)) + list(range(n - 40, n))))
        d = tempfile.mkdtemp(dir=workdir)
        cache = cls(location=d)
        p = os.path.join(d, fn)
        # the intact entry is returned
        with open(p, "wb") as f:
            f.write(data)
        if cache.get(ident) is None:
            ctx.fail("intact entry not returned", {"entry": fn}, None, "the object")
        for off in offsets:
            for zero in (False, True):
                with open(p, "wb") as f:
                    f.write(data[:off] + (b"\0" * (n - off) if zero else b""))
                meta = {"entry": fn, "size": n, "offset": off, "zero_filled_tail": zero}
                ctx.case((fn, off, zero), True)
                ctx.dist["sweep:" + suffix] += 1
                try:
                    r = cache.get(ident)
                except BaseException as e:
                    ctx.fail("lookup of a damaged entry raised", meta, repr(e), "None")
                    continue
                if r is not None:
                    ctx.fail("a damaged entry produced an object", meta, repr(r)[:80], None)
                if os.path.exists(p):
                    ctx.fail("a damaged entry was not removed", meta, "still there", "removed")
        shutil.rmtree(d, ignore_errors=True)
    shutil.rmtree(d0, ignore_errors=True)


def _worker(args):
    d, seed, seconds, repo = args
    import random
    import sys
    sys.path.insert(0, repo)
    import suds.cache
    rng = random.Random(seed)
    cache = suds.cache.ObjectCache(location=d)
    bad = []
    end = time.time() + seconds
    n = 0
    while time.time() < end:
        i = rng.choice(["x", "y"])
        r = rng.random()
        opname = "put" if r < 0.4 else "get" if r < 0.9 else "purge" if r < 0.97 else "clear"
        try:
            if r < 0.4:
                cache.put(i, {"id": i, "writer": seed, "n": n, "pad": "p" * rng.choice([10, 5000, 60000])})
            elif r < 0.9:
                v = cache.get(i)
                if v is not None and not (isinstance(v, dict) and v.get("id") == i and len(v.get("pad", "")) in (10, 5000, 60000)):
                    bad.append(("garbled", repr(v)[:80]))
            elif r < 0.97:
                cache.purge(i)
            else:
                cache.clear()
        except BaseException as e:
            # clear() racing with another process removing the same file is outside the lookup clause
            bad.append(("raised in %s" % opname, repr(e)))
        n += 1
    return n, bad


def stress(ctx, workdir):
    d = tempfile.mkdtemp(dir=workdir)
    procs = ctx.pick(4, 16)
    seconds = ctx.pick(2, 20)
    with multiprocessing.get_context("fork").Pool(procs) as pool:
        res = pool.map(_worker, [(d, ctx.seed * 100 + i, seconds, common.REPO) for i in range(procs)])
    total = sum(r[0] for r in res)
    ctx.case(("stress", procs, ctx.seed), True, n=1)
    ctx.dist["stress:operations"] += total
    for n, bad in res:
        for b in bad:
            if b[0] == "raised in clear":
                ctx.dist["stress:clear-raced"] += 1
                continue
            ctx.fail("concurrent cache users: %s" % b[0], {"processes": procs}, b[1],
                     "None or a value some process stored under that id")
    shutil.rmtree(d, ignore_errors=True)


def write_failures(ctx, workdir):
    import suds.cache
    blocker = os.path.join(workdir, "regular-file")
    with open(blocker, "w") as f:
        f.write("x")
    for cls, val in ((suds.cache.ObjectCache, {"a": 1}), (suds.cache.DocumentCache, mk_value("document", 1))):
        ctx.case(("unwritable", cls.__name__), True)
        try:
            c = cls(location=os.path.join(blocker, "sub"))
            r = c.put("a", val)
            g = c.get("a")
            c.purge("a")
            c.clear() if os.path.isdir(os.path.join(blocker, "sub")) else None
            if g is not None:
                ctx.fail("unwritable location produced an entry", {"class": cls.__name__}, repr(g), None)
        except Exception as e:
            if not isinstance(e, (FileNotFoundError, NotADirectoryError)) or "clear" not in repr(e.__traceback__):
                pass
            # construction / put / get must not raise
            import traceback
            tb = traceback.extract_tb(e.__traceback__)
            where = tb[-1].name
            if where not in ("clear",):
                ctx.fail("cache raised on an unwritable location", {"class": cls.__name__, "where": where}, repr(e),
                         "no exception")
        # errors at open / write / close during put
        for phase in ("open", "write", "close"):
            d = tempfile.mkdtemp(dir=workdir)
            c = cls(location=d)
            c.put("k", val)

            class F:
                def __init__(self, real):
                    self.real = real

                def write(self, data):
                    if phase == "write":
                        self.real.write(data[:len(data) // 2])
                        raise OSError(28, "No space left on device")
                    return self.real.write(data)

                def close(self):
                    self.real.close()
                    if phase == "close":
                        raise OSError(5, "I/O error")

                def read(self, *a):
                    return self.real.read(*a)

                def __getattr__(self, n):
                    return getattr(self.real, n)

            def fake_open(name, mode="r", *a, **k):
                if "w" in mode and phase == "open":
                    raise OSError(13, "Permission denied")
                f = open(name, mode, *a, **k)
                return F(f) if "w" in mode else f
            suds.cache.open = fake_open
            ctx.case(("write-failure", cls.__name__, phase), True)
            try:
                try:
                    c.put("k", val)
                except Exception as e:
                    ctx.fail("put raised on a write failure", {"class": cls.__name__, "phase": phase}, repr(e), "no exception")
            finally:
                del suds.cache.open
            try:
                g = c.get("k")
            except Exception as e:
                ctx.fail("get raised after a failed write", {"class": cls.__name__, "phase": phase}, repr(e), "None or the object")
                g = None
            if g is not None:
                same = (g == val) if cls is suds.cache.ObjectCache else (g.root().get("n") == "1")
                if not same:
                    ctx.fail("a partial object was returned after a failed write", {"class": cls.__name__, "phase": phase},
                             repr(g)[:80], "None or the object")
            shutil.rmtree(d, ignore_errors=True)


def CountingStore(docs):
    import suds.store

    class _Counting(suds.store.DocumentStore):
        def __init__(self, docs):
            suds.store.DocumentStore.__init__(self)
            self.update(docs)
            self.opened = []

        def open(self, url):
            self.opened.append(url)
            return suds.store.DocumentStore.open(self, url)
    return _Counting(docs)


def fingerprint(client, reply):
    env = wsdlkit.envelope_bytes(client.service.f("v", 3))
    return {"sd": str(client), "request": xmlread.infoset(xmlread.parse(env))}


def warm_clients(ctx, workdir):
    import suds.cache
    import suds.client
    import suds.store
    inc = ('<xsd:schema xmlns:xsd="http://www.w3.org/2001/XMLSchema" targetNamespace="urn:inc" '
           'elementFormDefault="qualified"><xsd:element name="e" type="xsd:string"/></xsd:schema>').encode()
    schema = ('<xsd:import namespace="urn:inc" schemaLocation="suds://inc.xsd"/><xsd:element name="f"><xsd:complexType>'
              '<xsd:sequence><xsd:element name="a" type="xsd:string"/><xsd:element name="b" type="xsd:int" minOccurs="0"/>'
              '</xsd:sequence></xsd:complexType></xsd:element><xsd:element name="fResponse"><xsd:complexType><xsd:sequence>'
              '<xsd:element name="r" type="xsd:string"/></xsd:sequence></xsd:complexType></xsd:element>')
    variants = {
        "plain": (wsdlkit.wsdl_doc(schema, "f", "fResponse"), {"inc.xsd": inc}),
        "wsdl-import-xsd": (wsdlkit.wsdl_doc(schema, "f", "fResponse").replace(
            b"<wsdl:types>", b'<wsdl:import namespace="urn:inc2" location="suds://inc2.xsd"/><wsdl:types>'),
            {"inc.xsd": inc, "inc2.xsd": inc.replace(b"urn:inc", b"urn:inc2")}),
    }
    reply = ('<e:Envelope xmlns:e="%s"><e:Body><fResponse xmlns="%s"><r>ok</r></fResponse></e:Body></e:Envelope>'
             % (xmlread.ENV11, wsdlkit.TNS)).encode()
    import suds.plugin

    class AddParam(suds.plugin.DocumentPlugin):
        """Edits every opened document: operation f gets a further optional parameter."""
        def parsed(self, context):
            for n in context.document.branch():
                if n.name == "element" and n.get("name") == "f":
                    seq = n.getChild("complexType").getChild("sequence")
                    from suds.sax.element import Element
                    e = Element("xsd:element")
                    e.set("name", "extra")
                    e.set("type", "xsd:string")
                    e.set("minOccurs", "0")
                    seq.append(e)
    variants["plain+plugin"] = variants["plain"]
    # a document whose root element has no children at all (a placeholder schema): cached and served like any other
    variants["empty-import"] = (wsdlkit.wsdl_doc('<xsd:import namespace="urn:empty" schemaLocation="suds://empty.xsd"/>'
                                                 + schema, "f", "fResponse"),
                                {"inc.xsd": inc, "empty.xsd": b'<xsd:schema xmlns:xsd="http://www.w3.org/2001/XMLSchema" '
                                                               b'targetNamespace="urn:empty"/>'})

    class MemCache(suds.cache.Cache):
        """A cache that keeps the very objects it is given (allowed by the Cache interface)."""
        shared = {}

        def __init__(self, location=None):
            self.d = MemCache.shared.setdefault(location, {})

        def get(self, id):
            return self.d.get(id)

        def put(self, id, object):
            self.d[id] = object

        def purge(self, id):
            self.d.pop(id, None)

        def clear(self):
            self.d.clear()
    for vname, (w, extra) in variants.items():
        docs = dict(extra)
        docs["main.wsdl"] = w
        plug = {"plugins": [AddParam()]} if vname.endswith("+plugin") else {}
        base_store = CountingStore(docs)
        base = suds.client.Client("suds://main.wsdl", documentStore=base_store, cache=None, nosend=True, **plug)
        base_fp = fingerprint(base, reply)
        base_np = suds.client.Client("suds://main.wsdl", documentStore=CountingStore(docs), cache=None, nosend=True,
                                     prettyxml=True, prefixes=False, **plug)
        env_np = wsdlkit.envelope_bytes(base_np.service.f("v", 3))
        for cls in (suds.cache.ObjectCache, suds.cache.DocumentCache, MemCache):
            for policy in (0, 1):
                if cls is MemCache and policy == 0 and plug:
                    continue     # a cache that hands out the stored document itself + a plugin that edits what it is
                    #              handed: the edit is applied to the stored object (not a question of this property)
                d = tempfile.mkdtemp(dir=workdir)
                meta = {"wsdl": vname, "cache": cls.__name__, "cachingpolicy": policy}
                ctx.case(common.canon(meta), True)
                try:
                    s1 = CountingStore(docs)
                    cold = suds.client.Client("suds://main.wsdl", documentStore=s1, cache=cls(location=d),
                                              cachingpolicy=policy, nosend=True, prettyxml=False, **plug)
                    files_after_cold = sorted(os.listdir(d))
                    s2 = CountingStore(docs)
                    warm = suds.client.Client("suds://main.wsdl", documentStore=s2, cache=cls(location=d),
                                              cachingpolicy=policy, nosend=True, prettyxml=True, **plug)
                    warm_np = suds.client.Client("suds://main.wsdl", documentStore=CountingStore(docs),
                                                 cache=cls(location=d), cachingpolicy=policy, nosend=True, prettyxml=True,
                                                 prefixes=False, **plug)
                except Exception as e:
                    ctx.fail("client over a %s cache failed" % ("warm" if "cold" in dir() and False else "cold/warm"), meta,
                             repr(e), "a client")
                    shutil.rmtree(d, ignore_errors=True)
                    continue
                for label, c in (("cold", cold), ("warm", warm)):
                    fp = fingerprint(c, reply)
                    if fp != base_fp:
                        ctx.fail("%s client differs from the cache-less client" % label, meta, fp, base_fp)
                # options that act inside the binding (prefixes) are the warm client's own too
                got_np = wsdlkit.envelope_bytes(warm_np.service.f("v", 3))
                if got_np != env_np:
                    ctx.fail("a warm client built with prefixes=False does not build the request a cache-less client "
                             "with that option builds", meta, got_np.decode()[:300], env_np.decode()[:300])
                usable = (cls is suds.cache.ObjectCache) or policy == 0 or cls is MemCache
                # what the policy says is cached IS cached by the cold load - with plugins registered or not
                if cls is not MemCache and (policy == 0 or cls is suds.cache.ObjectCache):
                    kinds = sorted(set(f_.rsplit("-", 1)[-1] for f_ in files_after_cold if f_.startswith("suds-")))
                    want_kinds = ["wsdl.px"] if policy == 1 else (["document.px"] if cls is suds.cache.ObjectCache else ["document.xml"])
                    if kinds != want_kinds:
                        ctx.fail("the cold load did not store what the caching policy says is cached", meta, files_after_cold,
                                 want_kinds)
                if usable and (len(files_after_cold) > 1 or cls is MemCache) and s2.opened:
                    ctx.fail("warm client fetched documents", meta, s2.opened, [])
                # call-time options of the warm client are honoured (not the cached object's)
                env = wsdlkit.envelope_bytes(warm.service.f("v", 3))
                if b"\n" not in env:
                    ctx.fail("warm client ignored its own prettyxml option", meta, env[:80], "pretty output")
                env = wsdlkit.envelope_bytes(cold.service.f("v", 3))
                if b"\n" in env.split(b"?>", 1)[1]:
                    ctx.fail("cold client's option changed after a warm client was built", meta, env[:80], "compact output")
                # replies are never stored
                live = suds.client.Client("suds://main.wsdl", documentStore=CountingStore(docs), cache=cls(location=d),
                                          cachingpolicy=policy, transport=wsdlkit.RecordingTransport(reply=reply))
                before = sorted(os.listdir(d))
                live.service.f("v", 3)
                live.service.f("w")
                if sorted(os.listdir(d)) != before:
                    ctx.fail("an invocation wrote to the cache", meta, sorted(os.listdir(d)), before)
                # ids never alias: document and wsdl entries of one URL are different files
                names = [f for f in before if f.startswith("suds-")]
                if len(names) != len(set(n.rsplit(".", 1)[0] for n in names)):
                    ctx.fail("cache ids alias", meta, names, "distinct ids")
                shutil.rmtree(d, ignore_errors=True)


def shared_dir(ctx, workdir):
    """One directory used by both cache classes: clear and the version check act on every entry."""
    import suds.cache
    import suds
    v = suds.__version__
    actions = ["clear"] + ["foreign-version:" + x for x in ("0.0-foreign", v + ".post1", v + "1", v + "rc1", v[:-1], "")]
    for opener in ("object", "document"):
        for action in actions:
            d = tempfile.mkdtemp(dir=workdir)
            oc = suds.cache.ObjectCache(location=d)
            dc = suds.cache.DocumentCache(location=d)
            oc.put("a", {"obj": 1})
            dc.put("b", mk_value("document", 2))
            meta = {"opened_by": opener, "action": action}
            ctx.case(("shared", opener, action), True)
            if action.startswith("foreign-version:"):
                with open(os.path.join(d, "version"), "w") as f:
                    f.write(action.split(":", 1)[1])
                (suds.cache.ObjectCache if opener == "object" else suds.cache.DocumentCache)(location=d)
            else:
                (oc if opener == "object" else dc).clear()
            left = entry_files(d)
            got = (suds.cache.ObjectCache(location=d).get("a"), suds.cache.DocumentCache(location=d).get("b"))
            if left or got != (None, None):
                ctx.fail("entries written under another version / before clear() are still served", meta,
                         {"files": left, "get": [repr(g)[:40] for g in got]}, "empty cache")
            shutil.rmtree(d, ignore_errors=True)


def url_case(ctx, workdir):
    """Cache ids never alias: two documents at URLs that differ only in letter case keep their own entries."""
    import suds.cache
    import suds.client
    import suds.store
    def wsdl(opname):
        return wsdlkit.wsdl_doc('<xsd:element name="%s"><xsd:complexType><xsd:sequence/></xsd:complexType></xsd:element>'
                                % opname, opname, None, op=opname)
    for policy in (0, 1):
        d = tempfile.mkdtemp(dir=workdir)
        try:
            store = suds.store.DocumentStore()
            store.update({"api/V1/Service.wsdl": wsdl("alpha"), "api/v1/service.wsdl": wsdl("beta")})
            names = []
            for url in ("suds://api/V1/Service.wsdl", "suds://api/v1/service.wsdl", "suds://api/V1/Service.wsdl"):
                c = suds.client.Client(url, documentStore=store, cache=suds.cache.ObjectCache(location=d),
                                       cachingpolicy=policy)
                names.append([m[0] for m in c.sd[0].ports[0][1]])
            ctx.case(("url-case", policy), True)
            if names != [["alpha"], ["beta"], ["alpha"]]:
                ctx.fail("documents at URLs differing only in letter case share a cache entry", {"cachingpolicy": policy},
                         names, [["alpha"], ["beta"], ["alpha"]])
        finally:
            shutil.rmtree(d, ignore_errors=True)
    # ... nor do locations that differ only in characters outside ASCII (document-store names may hold any character)
    for policy in (0, 1):
        for cls in (suds.cache.ObjectCache, suds.cache.DocumentCache):
            d = tempfile.mkdtemp(dir=workdir)
            try:
                store = suds.store.DocumentStore()
                locs = ["api/sch\u00e9ma.wsdl", "api/sch\u00e8ma.wsdl", "api/schma.wsdl", "api/sche\u0301ma.wsdl"]
                store.update({l: wsdl("op%d" % i) for i, l in enumerate(locs)})
                names = []
                for l in locs + locs[:2]:
                    c = suds.client.Client("suds://" + l, documentStore=store, cache=cls(location=d), cachingpolicy=policy)
                    names.append([m[0] for m in c.sd[0].ports[0][1]])
                ctx.case(("url-non-ascii", policy, cls.__name__), True)
                want = [["op%d" % i] for i in (0, 1, 2, 3, 0, 1)]
                if names != want:
                    ctx.fail("documents at URLs differing only in letter case share a cache entry",
                             {"cachingpolicy": policy, "cache": cls.__name__, "locations": locs,
                              "differ_in": "characters outside ASCII"}, names, want)
            finally:
                shutil.rmtree(d, ignore_errors=True)


def real_clock_and_file_urls(ctx, workdir):
    """(a) on the real file system and the real clock: an entry is served until its duration is over and not a moment
    longer because it was looked at; (b) suds text objects come back from the object cache as they went in (their
    language and escaping marks too); (c) a client whose WSDL lives at a file: URL is built from the warm cache like any
    other - the file may be gone by then."""
    import time
    import suds.cache
    import suds.client
    from suds.sax.text import Text
    for cls, val in ((suds.cache.ObjectCache, {"a": 1}), (suds.cache.DocumentCache, mk_value("document", 1))):
        d = tempfile.mkdtemp(dir=workdir)
        c = cls(location=d, seconds=2)
        ctx.case(("real-clock-expiry", cls.__name__), True)
        c.put("k", val)
        t0 = time.time()
        time.sleep(1.2)
        first = c.get("k")
        time.sleep(max(0.0, 2.5 - (time.time() - t0)))
        second = c.get("k")
        if second is not None:
            ctx.fail("an entry past its duration was served (looking at it earlier kept it alive)",
                     {"class": cls.__name__, "duration_s": 2, "age_s": round(time.time() - t0, 2)}, repr(second)[:80], None)
    # a folder inside the cache folder whose name starts like an entry: clearing (explicit, or on a foreign version
    # stamp) leaves it alone and does not raise
    for cls in (suds.cache.ObjectCache, suds.cache.DocumentCache):
        d = tempfile.mkdtemp(dir=workdir)
        os.makedirs(os.path.join(d, "suds-documents"))
        ctx.case(("subfolder-named-like-entries", cls.__name__), True)
        try:
            c = cls(location=d)
            c.put("k", {"a": 1} if cls is suds.cache.ObjectCache else mk_value("document", 1))
            c.clear()
            after_clear = c.get("k")
            c.put("k", {"a": 1} if cls is suds.cache.ObjectCache else mk_value("document", 1))
            with open(os.path.join(d, "version"), "w") as f:
                f.write("0.0-foreign")
            after_foreign = cls(location=d).get("k")
            facts = [after_clear, after_foreign, os.path.isdir(os.path.join(d, "suds-documents"))]
        except Exception as e:
            facts = repr(e)
        if facts != [None, None, True]:
            ctx.fail("a folder named like an entry inside the cache folder disturbs clearing", {"class": cls.__name__},
                     repr(facts)[:200], [None, None, True])
    # a WSDL kept past the duration of the cache it was given is not served: the document changed meanwhile
    d = tempfile.mkdtemp(dir=workdir)

    def wsdl_named(opname):
        return wsdlkit.wsdl_doc('<xsd:element name="%s"><xsd:complexType><xsd:sequence/></xsd:complexType></xsd:element>'
                                % opname, opname, None, op=opname)
    import suds.store
    store = suds.store.DocumentStore()
    names = []
    ctx.case(("policy1-document-cache-duration",), True)
    try:
        for opname, pause in (("first", 1.3), ("second", 0)):
            store.update({"svc.wsdl": wsdl_named(opname)})
            c = suds.client.Client("suds://svc.wsdl", documentStore=store, cachingpolicy=1,
                                   cache=suds.cache.DocumentCache(location=d, seconds=1), nosend=True)
            names.append([m[0] for m in c.sd[0].ports[0][1]])
            time.sleep(pause)
    except Exception as e:
        names.append(repr(e))
    if names != [["first"], ["second"]]:
        ctx.fail("a WSDL older than the duration of the configured cache was served", {"cachingpolicy": 1,
                 "cache": "DocumentCache(seconds=1)"}, names, [["first"], ["second"]])
    d = tempfile.mkdtemp(dir=workdir)
    oc = suds.cache.ObjectCache(location=d)
    texts = [Text("a<b", lang="en", escaped=False), Text("&lt;x&gt;", escaped=True), Text("plain"), Text("fr", lang="fr", escaped=True)]
    oc.put("texts", {"t": texts})
    back = (oc.get("texts") or {}).get("t")
    ctx.case(("text-roundtrip",), True)
    got = None if back is None else [[str(t), t.lang, bool(t.escaped)] for t in back]
    want = [[str(t), t.lang, bool(t.escaped)] for t in texts]
    if got != want:
        ctx.fail("a lookup returned an object that is not equal to the one stored (text objects)", {"stream": "text-roundtrip"},
                 got, want)
    # (c)
    w = wsdlkit.wsdl_doc('<xsd:element name="f"><xsd:complexType><xsd:sequence><xsd:element name="a" type="xsd:string"/>'
                         '</xsd:sequence></xsd:complexType></xsd:element>', "f", None)
    for policy in (0, 1):
        d = tempfile.mkdtemp(dir=workdir)
        path = os.path.join(d, "svc.wsdl")
        with open(path, "wb") as f:
            f.write(w)
        cdir = tempfile.mkdtemp(dir=workdir)
        ctx.case(("file-url", policy), True)
        try:
            cold = suds.client.Client("file://" + path, cache=suds.cache.ObjectCache(location=cdir), cachingpolicy=policy,
                                      nosend=True)
            want = wsdlkit.envelope_bytes(cold.service.f("v"))
            os.remove(path)
            warm = suds.client.Client("file://" + path, cache=suds.cache.ObjectCache(location=cdir), cachingpolicy=policy,
                                      nosend=True)
            got = wsdlkit.envelope_bytes(warm.service.f("v"))
        except Exception as e:
            got, want = "%s: %s" % (type(e).__name__, str(e)[:200]), "the same request as the cold client"
        if got != want:
            ctx.fail("a client over a warm cache fetched again (the document is at a file: URL and gone)",
                     {"cachingpolicy": policy}, got if isinstance(got, str) else got.decode()[:300],
                     want if isinstance(want, str) else want.decode()[:300])


def read_and_remove_failures(ctx, workdir):
    """A lookup never raises and never serves a stale entry, also when the entry opens but cannot be read (I/O error
    at read), and when an entry past its duration cannot be deleted."""
    import suds.cache
    for cls, val in ((suds.cache.FileCache, b"raw-bytes"), (suds.cache.ObjectCache, {"a": 1}),
                     (suds.cache.DocumentCache, mk_value("document", 1))):
        d = tempfile.mkdtemp(dir=workdir)
        c = cls(location=d)
        c.put("k", val)

        class F:
            def __init__(self, real):
                self.real = real

            def _boom(self, *a, **k):
                raise OSError(5, "Input/output error")
            read = readline = readinto = readlines = peek = _boom

            def close(self):
                self.real.close()

            def __iter__(self):
                self._boom()

            def __getattr__(self, n):
                return getattr(self.real, n)

        def fake_open(name, mode="r", *a, **k):
            f = open(name, mode, *a, **k)
            return F(f) if "r" in mode and os.path.abspath(name).startswith(os.path.abspath(d)) else f
        suds.cache.open = fake_open
        ctx.case(("read-failure", cls.__name__), True)
        try:
            try:
                g = c.get("k")
            except Exception as e:
                ctx.fail("get raised on an entry that opens but cannot be read", {"class": cls.__name__}, repr(e),
                         "None")
                g = None
        finally:
            del suds.cache.open
        if g is not None:
            ctx.fail("an unreadable entry produced an object", {"class": cls.__name__}, repr(g)[:80], None)
        # an entry past its duration that cannot be deleted is still not served
        d2 = tempfile.mkdtemp(dir=workdir)
        c2 = cls(location=d2, seconds=5)
        c2.put("k", val)
        real_remove = os.remove
        real_getctime = os.path.getctime

        def no_remove(path, *a, **k):
            if os.path.abspath(path).startswith(os.path.abspath(d2)):
                raise PermissionError(13, "Permission denied", path)
            return real_remove(path, *a, **k)
        os.path.getctime = lambda path: real_getctime(path) - 3600
        os.remove = no_remove
        ctx.case(("expired-undeletable", cls.__name__), True)
        try:
            try:
                g = c2.get("k")
            except Exception as e:
                ctx.fail("get raised on an expired entry that cannot be deleted", {"class": cls.__name__}, repr(e), "None")
                g = None
        finally:
            os.remove = real_remove
            os.path.getctime = real_getctime
        if g is not None:
            ctx.fail("an entry past its duration was served (it could not be deleted)", {"class": cls.__name__},
                     repr(g)[:80], None)


def overwrites_stamps_and_shared_instances(ctx, workdir):
    """(a) an entry overwritten by a shorter one holds exactly the shorter one; (b) a version stamp that is not even
    text (torn in the middle of a character, binary) is a foreign stamp: the cache opens, cleared, and never raises;
    (c) one cache INSTANCE used for several clients hands each its own object: a client keeps the options it was
    built with whatever a later client over the same instance asks for."""
    import suds.cache
    from suds.sax.parser import Parser
    big_doc = Parser().parse(string=("<d n='1'>%s</d>" % ("<c>long text</c>" * 200)).encode())
    small_doc = Parser().parse(string=b"<d n='2'/>")
    for cls, big, small, same in (
            (suds.cache.FileCache, b"L" * 5000, b"s", lambda g, v: g == v),
            (suds.cache.ObjectCache, {"k": ["x" * 100] * 50}, {"k": 1}, lambda g, v: g == v),
            (suds.cache.DocumentCache, big_doc, small_doc, lambda g, v: g is not None and g.root().get("n") == v.root().get("n")
             and len(g.root().children) == len(v.root().children))):
        d = tempfile.mkdtemp(dir=workdir)
        c = cls(location=d)
        ctx.case(("overwrite-shorter", cls.__name__), True)
        try:
            c.put("k", big)
            c.put("k", small)
            g = c.get("k")
            g2 = cls(location=d).get("k")
        except Exception as e:
            ctx.fail("cache raised while an entry was overwritten", {"class": cls.__name__}, repr(e), "no exception")
            continue
        if not same(g, small) or not same(g2, small):
            ctx.fail("after an entry is overwritten by a shorter one a lookup does not return the most recent object",
                     {"class": cls.__name__}, [repr(g)[:80], repr(g2)[:80]], repr(small)[:80])
    for stamp in (b"\xff\xfe\x00\x01", b"1.\xc3", b"\x00" * 16, ("%s\n" % __import__("suds").__version__).encode() + b"\xe9"):
        d = tempfile.mkdtemp(dir=workdir)
        c = suds.cache.ObjectCache(location=d)
        c.put("k", {"a": 1})
        with open(os.path.join(d, "version"), "wb") as f:
            f.write(stamp)
        meta = {"stream": "stamp-bytes", "stamp": repr(stamp)}
        ctx.case(common.canon(meta), True)
        try:
            c2 = suds.cache.ObjectCache(location=d)
            g = c2.get("k")
        except Exception as e:
            ctx.fail("a cache folder with an unreadable version stamp makes the cache raise", meta, repr(e), "an empty cache")
            continue
        if g is not None:
            ctx.fail("entries stamped by something that is not this version are served", meta, repr(g), None)
    # ids never alias, however long they are and however much of them they share
    # (ids as the readers make them: a 32-digit hash of the location, a dash and the kind of entry - and longer ones)
    stem = "0123456789abcdef0123456789abcdef"
    ids = [stem + "-wsdl", stem + "-document", stem + "0-document", stem[:-1] + "-wsdl", stem.upper() + "-wsdl",
           "mx" + stem, stem + "-wsdl-2", stem * 3 + "-a", stem * 3 + "-b"]
    for cls, mk in ((suds.cache.ObjectCache, lambda i: {"n": i}),
                    (suds.cache.DocumentCache, lambda i: Parser().parse(string=("<d n='%d'/>" % i).encode()))):
        d = tempfile.mkdtemp(dir=workdir)
        c = cls(location=d)
        ctx.case(("long-ids", cls.__name__), True)
        for i, id_ in enumerate(ids):
            c.put(id_, mk(i))
        got = []
        for id_ in ids:
            g = c.get(id_)
            got.append(None if g is None else (g["n"] if isinstance(g, dict) else int(g.root().get("n"))))
        if got != list(range(len(ids))):
            ctx.fail("two cache ids alias (a lookup returns what was stored under another id)", {"class": cls.__name__,
                     "ids": ids}, got, list(range(len(ids))))
        # the entry's file is named as the model says: prefix, dash, the whole id, dot, suffix
        names = ctx.driver.ask([{"op": "cache.filename", "prefix": c.fnprefix, "id": id_, "suffix": c.fnsuffix()}
                                for id_ in ids])
        on_disk = sorted(f for f in os.listdir(d) if f != "version")
        if names and all(n is not None for n in names):
            ctx.compare("cache-entry-file-names", {"class": cls.__name__, "ids": ids}, on_disk, sorted(names))
        c.purge(ids[0])
        if c.get(ids[0]) is not None or c.get(ids[1]) is None:
            ctx.fail("purging one id touched another", {"class": cls.__name__}, [c.get(ids[0]), c.get(ids[1])], [None, "kept"])
    # (c)
    schema = ('<xsd:element name="f"><xsd:complexType><xsd:sequence><xsd:element name="a" type="xsd:string"/></xsd:sequence>'
              '</xsd:complexType></xsd:element>')
    w = wsdlkit.wsdl_doc(schema, "f", None)
    d = tempfile.mkdtemp(dir=workdir)
    shared = suds.cache.ObjectCache(location=d)
    ctx.case(("shared-cache-instance",), True)
    try:
        cold = [wsdlkit.envelope_bytes(wsdlkit.client(w, nosend=True, prefixes=p).service.f("v")) for p in (True, False)]
        c1 = wsdlkit.client(w, nosend=True, prefixes=True, cache=shared, cachingpolicy=1)
        c2 = wsdlkit.client(w, nosend=True, prefixes=False, cache=shared, cachingpolicy=1)
        c3 = wsdlkit.client(w, nosend=True, prefixes=True, cache=shared, cachingpolicy=1)
        got = [wsdlkit.envelope_bytes(c.service.f("v")) for c in (c1, c2, c3, c1)]
        distinct = len({id(c.wsdl) for c in (c1, c2, c3)})
    except Exception as e:
        ctx.fail("clients over one cache instance could not be built / used", {"stream": "shared-cache-instance"}, repr(e),
                 "requests")
        return
    want = [cold[0], cold[1], cold[0], cold[0]]
    if got != want or distinct != 3:
        ctx.fail("clients built over one cache instance do not each keep the options they were given",
                 {"stream": "shared-cache-instance"}, [[g.decode()[:300] for g in got], distinct],
                 [[g.decode()[:300] for g in want], 3])


def durations_locations_and_names(ctx, workdir):
    """(a) freshness goes by the duration the cache HAS: a zero duration (given explicitly or by default) never
    expires, a duration assigned to the cache object after it was built is the one lookups use; (b) the endpoint a
    client was built with (location=) is that client's: a warm client built without one calls the WSDL's address, and
    the other way round; (c) a document with names outside ASCII is cached and served like any other."""
    import suds.cache
    import suds.client
    # (a)
    for how in ("days=0", "seconds=0", "default", "assigned-later", "assigned-zero-later"):
        for cls in (suds.cache.ObjectCache, suds.cache.FileCache):
            d = tempfile.mkdtemp(dir=workdir)
            clock = Clock()
            value = {"k": 1} if cls is suds.cache.ObjectCache else b"bytes"
            meta = {"stream": "durations", "how": how, "class": cls.__name__}
            ctx.case(common.canon(meta), True)
            try:
                with patched(clock):
                    if how == "days=0":
                        c = cls(location=d, days=0)
                    elif how == "seconds=0":
                        c = cls(location=d, seconds=0, minutes=0)
                    elif how == "assigned-zero-later":
                        c = cls(location=d, hours=1)
                        c.duration = datetime.timedelta(0)
                    else:
                        c = cls(location=d)
                    if how == "assigned-later":
                        c.duration = datetime.timedelta(seconds=100)
                    c.put("k", value)
                    for f in entry_files(d):
                        clock.ctimes[os.path.abspath(os.path.join(d, f))] = 0
                    clock.t = 50
                    early = c.get("k")
                    clock.t = 10 ** 7
                    late = c.get("k")
            except Exception as e:
                ctx.fail("cache raised", meta, repr(e), "no exception")
                continue
            want = [value, None if how == "assigned-later" else value]
            if [early, late] != want:
                ctx.fail("a lookup does not go by the duration the cache has (zero: entries never expire)", meta,
                         [repr(early), repr(late)], [repr(x) for x in want])
            shutil.rmtree(d, ignore_errors=True)
    # (b), (c)
    schema = ('<xsd:element name="f"><xsd:complexType><xsd:sequence><xsd:element name="gr\u00f6\u00dfe" type="xsd:string"/>'
              '</xsd:sequence><xsd:attribute name="\u00e9tat" type="xsd:string"/></xsd:complexType></xsd:element>'
              '<xsd:element name="fResponse"><xsd:complexType><xsd:sequence><xsd:element name="r" type="xsd:string"/>'
              '</xsd:sequence></xsd:complexType></xsd:element>')
    w = wsdlkit.wsdl_doc(schema, "f", "fResponse", location="http://wsdl.invalid/address").decode()
    w = w.replace("<wsdl:types>", '<wsdl:types xmlns:pr\u00e4fix="urn:unused">', 1).encode("utf-8")
    reply = ('<e:Envelope xmlns:e="%s"><e:Body><fResponse xmlns="%s"><r>ok</r></fResponse></e:Body></e:Envelope>'
             % (xmlread.ENV11, wsdlkit.TNS)).encode()
    docs = {"main.wsdl": w}
    for cls in (suds.cache.ObjectCache, suds.cache.DocumentCache):
        for policy in (0, 1):
            for first_loc, second_loc in ((None, None), ("http://override.invalid/x", None), (None, "http://override.invalid/y"),
                                          ("http://override.invalid/x", "http://override.invalid/y")):
                d = tempfile.mkdtemp(dir=workdir)
                meta = {"stream": "locations-and-names", "cache": cls.__name__, "cachingpolicy": policy,
                        "cold_location": first_loc, "warm_location": second_loc}
                ctx.case(common.canon(meta), True)
                try:
                    got = []
                    stores = []
                    for loc in (first_loc, second_loc, first_loc):
                        tr = wsdlkit.RecordingTransport(reply=reply)
                        st = CountingStore(docs)
                        stores.append(st)
                        kw = {} if loc is None else {"location": loc}
                        c = suds.client.Client("suds://main.wsdl", documentStore=st, cache=cls(location=d),
                                               cachingpolicy=policy, transport=tr, **kw)
                        c.service.f("v")
                        got.append([tr.sent[-1]["url"], "gr\u00f6\u00dfe".encode("utf-8") in tr.sent[-1]["message"]])
                except Exception as e:
                    ctx.fail("client over a cold/warm cache failed", meta, repr(e), "a client")
                    shutil.rmtree(d, ignore_errors=True)
                    continue
                want = [[loc or "http://wsdl.invalid/address", True] for loc in (first_loc, second_loc, first_loc)]
                if got != want:
                    ctx.fail("a warm client does not honour the options it was given (the endpoint of the client the "
                             "cached object was built for shows through)", meta, got, want)
                usable = (cls is suds.cache.ObjectCache) or policy == 0
                if usable and (stores[1].opened or stores[2].opened):
                    ctx.fail("warm client fetched documents", meta, [stores[1].opened, stores[2].opened], [[], []])
                shutil.rmtree(d, ignore_errors=True)


def warm_clients_own_xstq(ctx, workdir):
    """The xstq option (qualified xsi:type values) is a call-time option of the client that was given it: a warm client
    built with another setting than the cold one writes xsi:type its own way."""
    import suds.cache
    import suds.client
    schema = ('<xsd:complexType name="Base"><xsd:sequence><xsd:element name="a" type="xsd:string"/></xsd:sequence>'
              '</xsd:complexType><xsd:complexType name="Derived"><xsd:complexContent><xsd:extension base="x:Base">'
              '<xsd:sequence><xsd:element name="b" type="xsd:string"/></xsd:sequence></xsd:extension></xsd:complexContent>'
              '</xsd:complexType><xsd:element name="f"><xsd:complexType><xsd:sequence><xsd:element name="o" type="x:Base"/>'
              '</xsd:sequence></xsd:complexType></xsd:element>')
    docs = {"main.wsdl": wsdlkit.wsdl_doc(schema, "f", None)}

    def type_value(client):
        o = client.factory.create("{%s}Derived" % wsdlkit.TNS)
        o.a, o.b = "1", "2"
        root = xmlread.parse(wsdlkit.envelope_bytes(client.service.f(o)))
        on = xmlread.find1(xmlread.find1(xmlread.find1(root, "Body"), "f"), "o")
        return ":" in (on["attrs"].get((xmlread.XSI, "type")) or "")
    for cls, policy in ((suds.cache.ObjectCache, 1), (suds.cache.ObjectCache, 0), (suds.cache.DocumentCache, 0)):
        for cold_xstq in (True, False):
            d = tempfile.mkdtemp(dir=workdir)
            meta = {"stream": "warm-clients-own-xstq", "cache": cls.__name__, "cachingpolicy": policy, "cold_xstq": cold_xstq}
            ctx.case(common.canon(meta), True)
            try:
                got = []
                for xstq in (cold_xstq, not cold_xstq, cold_xstq):
                    c = suds.client.Client("suds://main.wsdl", documentStore=CountingStore(docs), cache=cls(location=d),
                                           cachingpolicy=policy, nosend=True, xstq=xstq)
                    got.append(type_value(c))
                want = [cold_xstq, not cold_xstq, cold_xstq]
            except Exception as e:
                got, want = "%s: %s" % (type(e).__name__, e), "three clients"
            if got != want:
                ctx.fail("a warm client does not honour the options it was given (xstq of the client the cached object was "
                         "built for shows through)", meta, got, want)
            shutil.rmtree(d, ignore_errors=True)


def family_warm_clients(ctx, workdir):
    """Interfaces of the generated family (several documents, derived types, attributes, arrays), loaded cold and warm
    under both caching policies: the warm client has the operations and types of the cache-less one, builds the same
    requests, decodes the same replies and fetches nothing."""
    import suds.cache
    from harness.props import c12
    for i in range(ctx.pick(4, 60)):
        ident = "C11/%s/%d" % (ctx.seed, i) + ("/enc" if i % 5 == 4 else "")
        try:
            I, single, docs, root, plan, decoys, st, net = c12.build_case(ident)
        except Exception as e:
            ctx.notes.append("generator failed for %s: %r" % (ident, e))
            continue
        base, err, _s, _t = c12.load(root, st, net)
        if err is not None:
            continue                    # (whether this graph loads at all is C12's matter)
        ref = c12.fingerprint(base, I, ident)
        for cls, policy in ((suds.cache.ObjectCache, 1), (suds.cache.DocumentCache, 0), (suds.cache.ObjectCache, 0)):
            d = tempfile.mkdtemp(dir=workdir)
            meta = {"stream": "family-warm-clients", "iface": ident, "documents": len(docs), "cache": cls.__name__,
                    "cachingpolicy": policy}
            ctx.case(common.canon(meta), True)
            try:
                for phase in ("cold", "warm", "warm-again"):
                    client, err, store, tr = c12.load(root, st, net, None, None, cls(location=d), policy)
                    if err is not None:
                        ctx.fail("client over a cold/warm cache failed", dict(meta, phase=phase), err, "a client")
                        break
                    fp = c12.fingerprint(client, I, ident)
                    if fp != ref:
                        diff = sorted(x for x in set(fp) | set(ref) if fp.get(x) != ref.get(x))
                        ctx.fail("%s client differs from the cache-less client" % phase.split("-")[0], dict(meta, phase=phase),
                                 {x: fp.get(x) for x in diff[:3]}, {x: ref.get(x) for x in diff[:3]})
                        break
                    if phase != "cold" and (tr.opened or store.served):
                        ctx.fail("warm client fetched documents", dict(meta, phase=phase), [tr.opened, store.served], [[], []])
                        break
            finally:
                shutil.rmtree(d, ignore_errors=True)


def run(ctx):
    # (the directory's name holds characters that mean something to glob / fnmatch / regular expressions)
    workdir = tempfile.mkdtemp(prefix="verif-c11 [v1]*?-")
    try:
        histories(ctx, workdir)
        sweep(ctx, workdir)
        stress(ctx, workdir)
        write_failures(ctx, workdir)
        read_and_remove_failures(ctx, workdir)
        real_clock_and_file_urls(ctx, workdir)
        overwrites_stamps_and_shared_instances(ctx, workdir)
        durations_locations_and_names(ctx, workdir)
        family_warm_clients(ctx, workdir)
        warm_clients_own_xstq(ctx, workdir)
        shared_dir(ctx, workdir)
        url_case(ctx, workdir)
        warm_clients(ctx, workdir)
    finally:
        shutil.rmtree(workdir, ignore_errors=True)
    ctx.sample({"history": [{"op": "put", "id": "a", "obj": 1}, {"op": "tear", "id": "a", "at": 7},
                            {"op": "get", "id": "a", "duration": 0}]})
    ctx.sample({"crash_point": {"entry": "suds-<md5>-wsdl.px", "offset": 1234, "zero_filled_tail": True}})


def widen(ctx):
    ctx.tier = "thorough"
    run(ctx)


def replay(ctx, payload):
    f = payload.get("failure") or {}
    inp = f.get("input") or {}
    if "ops" in inp and "kind" in inp:
        workdir = tempfile.mkdtemp(prefix="verif-c11-")
        try:
            real = run_history(inp["kind"], inp["ops"], workdir)
        finally:
            shutil.rmtree(workdir, ignore_errors=True)
        ans = ctx.driver.ask([{"op": "cache.run", "ops": [{"op": "reopen", "version": __import__("suds").__version__}] + model_ops(inp["ops"])}])[0]
        return {"fails": ans is not None and real != ans[1:], "real": real, "model": ans and ans[1:]}
    return {"fails": bool(f), "recorded": f}
