"""C20 - Parsing never reaches outside the document."""
import os
import shutil
import sys
import tempfile

from harness import common, wsdlkit, xmlread

ID = "C20"
LEAN_MODULES = ["SudsModel.Props.C20"]
RULE = ("documents combining internal subsets with external general entities, parameter entities, external DTD "
        "subsets, nested entities and xinclude-like elements, referenced from element text, attribute values and "
        "other entities, with file://, plain path, http:// and relative system identifiers x entry point {reply via "
        "__inject, reply via transport, RequestContext.process_reply, WSDL document, imported schema, cached "
        "document, Parser.parse, Element-level parse of a string} ; parsed under a sys.addaudithook recorder; "
        "non-trivial = the document has at least one external reference; distinct = distinct (document, entry point)"
        ' ; plus: XML declarations in every spelling (standalone=no), replies on the HTTP-error path, imported documents served under well-known locations, content handed on as bytearray / memoryview, documents the store holds under http locations, a 5 MiB reply'
        ' ; look-alike include/import elements of another vocabulary, imports of unbound namespaces without a location, suds:// locations spelling local files'
        ' ; xs:redefine, unlocated imports of namespaces fetched earlier in the process, a relative wsdl:import next to a same-named local file'
        ' ; a caller-named document that is not a WSDL'
        ' ; xsi:schemaLocation hints; explicit locations for namespaces with a built-in location'
        ' ; the cache folder only; wsdl:import without a location; protocols of cached locations'
        ' ; chains of includes across folders; the default document store; the environment\'s proxy'
        ' ; built-in locations; doctor imports'
        ' ; a foreign element called schema; graph shapes of C12 seen as fetches')
ASSUMPTIONS = ["pyexpat / xml.sax.expatreader behave as documented for feature_external_ges (trusted, exercised here)",
               "interpreter audit events open / socket.* / urllib.Request see every file or network access"]
PARTIAL = [{"theorem": "no_resolve_when_disabled", "missing": "about suds' configuration only; expat itself is runtime"}]
TRUSTED = ["pyexpat and xml.sax.expatreader (C / stdlib)"]

EVENTS = []
RECORD = [False]
INSTALLED = [False]
MARK = "VERIFSECRETMARK"


def hook(event, args):
    if not RECORD[0]:
        return
    if event in ("open", "socket.connect", "socket.getaddrinfo", "urllib.Request", "socket.bind", "os.listdir",
                 "ftplib.connect", "http.client.connect"):
        try:
            EVENTS.append((event, repr(args[0])[:200]))
        except Exception:
            EVENTS.append((event, "?"))


def install():
    if not INSTALLED[0]:
        sys.addaudithook(hook)
        INSTALLED[0] = True


class Recording:
    def __enter__(self):
        del EVENTS[:]
        RECORD[0] = True
        return self

    def __exit__(self, *a):
        RECORD[0] = False


def doctype_variants(secret, dtd, rng):
    """(name, doctype text, entity reference to put in text, attribute-safe reference or '')"""
    sysids = ["file://" + secret, secret, "http://127.0.0.1:9/%s" % MARK, os.path.basename(secret),
              "ftp://127.0.0.1:9/x"]
    out = [("none", "", "", "")]
    for sid in sysids:
        out.append(("ext-ge:" + sid[:12], '<!DOCTYPE r [<!ENTITY x SYSTEM "%s">]>' % sid, "&x;", ""))
        out.append(("ext-pe:" + sid[:12], '<!DOCTYPE r [<!ENTITY %% p SYSTEM "%s"> %%p;]>' % sid, "", ""))
        out.append(("ext-subset:" + sid[:12], '<!DOCTYPE r SYSTEM "%s">' % sid, "", ""))
        out.append(("public:" + sid[:12], '<!DOCTYPE r PUBLIC "-//V//DTD x//EN" "%s">' % sid, "", ""))
        out.append(("nested:" + sid[:12],
                    '<!DOCTYPE r [<!ENTITY x SYSTEM "%s"><!ENTITY y "a&x;b">]>' % sid, "&y;", ""))
        out.append(("pe-defines-ge:" + sid[:12],
                    '<!DOCTYPE r [<!ENTITY %% p SYSTEM "%s"> %%p; <!ENTITY z "zz">]>' % sid, "&z;", ""))
        out.append(("notation-unparsed:" + sid[:12],
                    '<!DOCTYPE r [<!NOTATION n SYSTEM "%s"><!ENTITY u SYSTEM "%s" NDATA n>]>' % (sid, sid), "", ""))
    out.append(("ext-subset-dtdfile", '<!DOCTYPE r SYSTEM "file://%s">' % dtd, "&fromdtd;", ""))
    out.append(("internal-only", '<!DOCTYPE r [<!ENTITY i "internal">]>', "&i;", "&i;"))
    return out


def run(ctx):
    global c12
    from harness.props import c12          # (the harness's own imports happen before anything is recorded)
    import suds
    import suds.cache
    import suds.client
    import suds.store
    from suds.sax.parser import Parser
    install()
    rng = ctx.rng
    work = tempfile.mkdtemp(prefix="verif-c20-")
    try:
        secret = os.path.join(work, "secret.txt")
        with open(secret, "w") as f:
            f.write(MARK)
        dtd = os.path.join(work, "ext.dtd")
        with open(dtd, "w") as f:
            f.write('<!ENTITY fromdtd "%s">' % MARK)
        with open(os.path.join(work, "local.xsd"), "w") as fh:
            fh.write('<xsd:schema xmlns:xsd="http://www.w3.org/2001/XMLSchema" targetNamespace="urn:inc">'
                     '<xsd:element name="%s" type="xsd:string"/></xsd:schema>' % MARK)
        cwd = os.getcwd()
        os.chdir(work)          # relative system identifiers would resolve here
        try:
            variants = doctype_variants(secret, dtd, rng)
            schema = ('<xsd:element name="f" type="xsd:string"/><xsd:element name="fResponse"><xsd:complexType>'
                      '<xsd:sequence><xsd:element name="r" type="xsd:string"/></xsd:sequence></xsd:complexType>'
                      '</xsd:element>')
            base_wsdl = wsdlkit.wsdl_doc(schema, "f", "fResponse").decode()
            xinclude = '<xi:include xmlns:xi="http://www.w3.org/2001/XInclude" href="file://%s" parse="text"/>' % secret
            reps = ctx.pick(1, 4)
            for name, doctype, ref, attref in variants:
                for rep in range(reps):
                    inner = rng.choice(["%s", "a%sb", "%s" + xinclude]) % ref if ref else rng.choice(["v", xinclude])
                    # a third of the documents are larger than 64 KiB (size must not change how they are parsed)
                    pad = ("<!--" + "p" * 70000 + "-->") if ((reps > 1 and rep == reps - 1) or rng.random() < 0.4) else ""
                    # the XML declaration in every legal spelling: what it says must not change what is resolved
                    prolog = rng.choice(['<?xml version="1.0"?>', '<?xml version="1.0"?>', "",
                                         '<?xml version="1.0" encoding="UTF-8" standalone="no"?>',
                                         "<?xml version='1.0' standalone='no'?>",
                                         '<?xml version="1.0" standalone="yes"?>',
                                         '<?xml version="1.0" encoding="utf-8"?>'])
                    reply = ('%s%s<e:Envelope xmlns:e="%s">%s<e:Body><fResponse xmlns="%s"><r k="%s">%s'
                             '</r></fResponse></e:Body></e:Envelope>'
                             % (prolog, doctype.replace(" r ", " e:Envelope "), xmlread.ENV11, pad, wsdlkit.TNS, attref,
                                inner)).encode()
                    fault = ('%s%s<e:Envelope xmlns:e="%s">%s<e:Body><e:Fault><faultcode>e:Server</faultcode>'
                             '<faultstring>%s</faultstring></e:Fault></e:Body></e:Envelope>'
                             % (prolog, doctype.replace(" r ", " e:Envelope "), xmlread.ENV11, pad, inner)).encode()
                    entry_points = []
                    c = wsdlkit.client(base_wsdl.encode())

                    def ep_inject(c=c, reply=reply):
                        return c.service.f("x", __inject={"reply": reply})

                    def ep_transport(reply=reply):
                        tr = wsdlkit.RecordingTransport(reply=suds.transport.Reply(200, {}, reply))
                        c2 = wsdlkit.client(base_wsdl.encode(), transport=tr)
                        return c2.service.f("x")

                    def ep_error_path(reply=reply, fault=fault):
                        # replies that arrive as HTTP errors (TransportError with a body) and injected error statuses
                        import io
                        out = []
                        for body, status in ((fault, 500), (reply, 500), (reply, 404), (fault, 200)):
                            for how in ("transport", "inject"):
                                if how == "transport":
                                    rv = suds.transport.TransportError("error", status, io.BytesIO(body)) if status != 200 \
                                        else suds.transport.Reply(200, {}, body)
                                    c4 = wsdlkit.client(base_wsdl.encode(), transport=wsdlkit.RecordingTransport(reply=rv),
                                                        faults=rng.random() < 0.5)
                                    kw = {}
                                else:
                                    c4 = wsdlkit.client(base_wsdl.encode(), faults=rng.random() < 0.5)
                                    kw = {"__inject": {"reply": body, "status": status, "description": "d"}}
                                try:
                                    out.append(str(c4.service.f("x", **kw)))
                                except Exception as e:
                                    out.append("%s %s %s" % (type(e).__name__, e, getattr(e, "fault", "")))
                        return " ".join(out)

                    def ep_reqctx(reply=reply):
                        c3 = wsdlkit.client(base_wsdl.encode(), nosend=True)
                        return c3.service.f("x").process_reply(reply)

                    def ep_parser(reply=reply):
                        return Parser().parse(string=reply).root().plain()

                    wsdl_doc = base_wsdl.replace('<?xml version="1.0" encoding="UTF-8"?>',
                                                 prolog + doctype.replace(" r ", " wsdl:definitions "))
                    if ref:
                        wsdl_doc = wsdl_doc.replace('<wsdl:types>', '<wsdl:documentation>%s</wsdl:documentation><wsdl:types>' % ref)
                    wsdl_doc = wsdl_doc.replace('<wsdl:types>', pad + '<wsdl:types>', 1)

                    def ep_wsdl(wsdl_doc=wsdl_doc):
                        cl = wsdlkit.client(wsdl_doc.encode())
                        return str(cl) + cl.wsdl.root.plain()

                    inc = ('%s%s<xsd:schema xmlns:xsd="http://www.w3.org/2001/XMLSchema" '
                           'targetNamespace="urn:inc">%s<xsd:annotation><xsd:documentation>%s</xsd:documentation>'
                           '</xsd:annotation><xsd:element name="e" type="xsd:string"/></xsd:schema>'
                           % (prolog, doctype.replace(" r ", " xsd:schema "), pad, ref)).encode()
                    w_imp = wsdlkit.wsdl_doc('<xsd:import namespace="urn:inc" schemaLocation="suds://inc.xsd"/>' + schema,
                                             "f", "fResponse")

                    def ep_import(inc=inc, w_imp=w_imp):
                        cl = wsdlkit.client(w_imp, extra_docs={"inc.xsd": inc})
                        return str(cl)

                    def ep_import_url(inc=inc, schema=schema):
                        # the same imported document served (by the configured transport) under other locations,
                        # well-known ones included: where a document comes from does not change how it is parsed
                        import io
                        out = []
                        for loc in ("http://www.w3.org/2001/xml.xsd", "http://www.w3.org/2001/XMLSchema.xsd",
                                    "https://schemas.example.invalid/inc.xsd", "http://localhost.invalid/a/b/inc.xsd"):
                            main = wsdlkit.wsdl_doc('<xsd:import namespace="urn:inc" schemaLocation="%s"/>' % loc + schema,
                                                    "f", "fResponse")

                            class T(suds.transport.Transport):
                                def open(self, request, main=main):
                                    return io.BytesIO(main if request.url.endswith("main.wsdl") else inc)

                                def send(self, request):
                                    raise AssertionError("no send")
                            try:
                                cl = suds.client.Client("http://fetch.invalid/main.wsdl", transport=T(), cache=None,
                                                        documentStore=None)
                                out.append(str(cl) + str(cl.wsdl.schema))
                            except Exception as e:
                                out.append("%s %s" % (type(e).__name__, e))
                        return " ".join(out)

                    cdir = os.path.join(work, "cache-%s-%d" % (abs(hash(name)) % 10**6, rep))

                    def ep_cache(cdir=cdir, wsdl_doc=wsdl_doc):
                        # a cached *document* file containing the DOCTYPE, read back by DocumentCache.get
                        cache = suds.cache.DocumentCache(location=cdir)
                        store = suds.store.DocumentStore()
                        store.update({"main.wsdl": base_wsdl.encode()})
                        suds.client.Client("suds://main.wsdl", documentStore=store, cache=cache, cachingpolicy=0)
                        files = [f for f in os.listdir(cdir) if f.endswith("-document.xml") or "document" in f]
                        for fn in files:
                            with open(os.path.join(cdir, fn), "wb") as fh:
                                fh.write(wsdl_doc.encode())
                        cl = suds.client.Client("suds://main.wsdl", documentStore=store, cache=cache, cachingpolicy=0)
                        return str(cl) + cl.wsdl.root.plain()
                    def ep_transport_fetch(schema=schema, secret=secret):
                        # every document comes from the configured transport, also for file:// locations that
                        # happen to exist on disk (with different content)
                        import io
                        import suds.transport
                        local = os.path.join(work, "local.xsd")
                        served = ('<xsd:schema xmlns:xsd="http://www.w3.org/2001/XMLSchema" targetNamespace="urn:inc">'
                                  '<xsd:element name="served" type="xsd:string"/></xsd:schema>').encode()
                        main = wsdlkit.wsdl_doc('<xsd:import namespace="urn:inc" schemaLocation="file://%s"/>' % local
                                                + schema, "f", "fResponse")

                        class T(suds.transport.Transport):
                            def open(self, request):
                                return io.BytesIO(main if request.url.endswith("main.wsdl") else served)

                            def send(self, request):
                                raise AssertionError("no send")
                        cl = suds.client.Client("http://fetch.invalid/main.wsdl", transport=T(), cache=None,
                                                documentStore=None)
                        return str(cl) + cl.wsdl.root.plain() + str(cl.wsdl.schema)

                    def ep_str_reply(secret=secret):
                        # a plugin hands the reply on as text: it is still document content, never a location
                        import suds.plugin

                        class P(suds.plugin.MessagePlugin):
                            def received(self, context):
                                context.reply = context.reply.decode("utf-8")
                        out = []
                        for body in (secret, "file://" + secret, "http://127.0.0.1:9/" + MARK):
                            cl = wsdlkit.client(base_wsdl.encode(), plugins=[P()])
                            try:
                                out.append(str(cl.service.f("x", __inject={"reply": body.encode()})))
                            except Exception as e:
                                out.append(type(e).__name__)
                        return " ".join(out)
                    def ep_mutable_content(wsdl_doc=wsdl_doc):
                        # a document plugin hands the downloaded content on as a bytearray / memoryview: it is still
                        # the content that is parsed, nothing is fetched again from the document's location
                        import io
                        import suds.plugin
                        out = []
                        for conv in (bytearray, lambda b: memoryview(bytes(b))):
                            class P(suds.plugin.DocumentPlugin):
                                def loaded(self, context, conv=conv):
                                    context.document = conv(context.document)

                            class T(suds.transport.Transport):
                                def open(self, request):
                                    return io.BytesIO(wsdl_doc.encode())

                                def send(self, request):
                                    raise AssertionError("no send")
                            try:
                                cl = suds.client.Client("http://127.0.0.1:9/%s.wsdl" % MARK, transport=T(), cache=None,
                                                        documentStore=None, plugins=[P()])
                                out.append(str(cl))
                            except Exception as e:
                                out.append(type(e).__name__)
                        return " ".join(out)

                    def ep_store_served(schema=schema):
                        # documents the configured store holds are never asked of the network, whatever their scheme
                        enc = "http://schemas.xmlsoap.org/soap/encoding/"
                        main = wsdlkit.wsdl_doc('<xsd:import namespace="%s" schemaLocation="%s"/>' % (enc, enc) + schema,
                                                "f", "fResponse")
                        store = suds.store.DocumentStore()
                        store.update({"main.wsdl": main, "held.invalid/inc.xsd": inc})
                        cl = suds.client.Client("suds://main.wsdl", documentStore=store, cache=None)
                        main2 = wsdlkit.wsdl_doc('<xsd:import namespace="urn:inc" schemaLocation="http://held.invalid/inc.xsd"/>'
                                                 + schema, "f", "fResponse")
                        store.update({"main2.wsdl": main2})
                        cl2 = suds.client.Client("suds://main2.wsdl", documentStore=store, cache=None)
                        return str(cl) + str(cl2)

                    def ep_send_only_transport(schema=schema):
                        # a transport that can only send: documents it cannot open are not fetched some other way
                        main = wsdlkit.wsdl_doc('<xsd:import namespace="urn:inc" schemaLocation="http://127.0.0.1:9/%s.xsd"/>'
                                                % MARK + schema, "f", "fResponse")

                        class SendOnly(suds.transport.Transport):
                            def send(self, request):
                                return None
                        store = suds.store.DocumentStore()
                        store.update({"main.wsdl": main})
                        try:
                            cl = suds.client.Client("suds://main.wsdl", documentStore=store, transport=SendOnly(), cache=None)
                            return str(cl)
                        except Exception as e:
                            return type(e).__name__

                    def ep_odd_locations(schema=schema):
                        # what names a document to fetch is an XSD import / include with a schemaLocation (or a bound
                        # namespace), handed to the configured store and transport - not a look-alike element of another
                        # vocabulary, not a namespace URI, not a file the location happens to spell
                        import io
                        local = os.path.join(work, "local.xsd")
                        variants_ = [
                            ('<xl:include xmlns:xl="urn:not-xsd" schemaLocation="http://127.0.0.1:9/odd.xsd"/>'
                             '<xl:import xmlns:xl="urn:not-xsd" namespace="urn:inc" schemaLocation="file://%s"/>' % local),
                            '<xsd:import namespace="http://127.0.0.1:9/odd-ns"/><xsd:import namespace="file://%s"/>' % local,
                            '<xsd:import namespace="urn:inc" schemaLocation="suds://%s"/>' % local,
                            '<xsd:import namespace="urn:inc" schemaLocation="suds://../../../../../../../../%s"/>' % local.lstrip("/"),
                            '<xsd:include schemaLocation="suds:%s"/>' % local,
                            '<xsd:redefine schemaLocation="http://127.0.0.1:9/odd-redefine.xsd"/>',
                            # no location, a namespace other loads of this process have fetched from somewhere
                            '<xsd:import namespace="urn:inc"/>',
                            "WSDL-IMPORT-RELATIVE",
                            "WSDL-IMPORT-NO-LOCATION", "WSDL-IMPORT-EMPTY-LOCATION", "WSDL-FOREIGN-SCHEMA-ELEMENT",
                            "SCHEMALOCATION-HINT",
                            # an explicit location for a namespace suds has a built-in location for: the named copy is
                            # the document asked for, not the built-in one
                            '<xsd:import namespace="http://www.w3.org/XML/1998/namespace" '
                            'schemaLocation="http://fetch.invalid/my-xml.xsd"/>',
                        ]
                        out = []
                        for extra_decl in variants_:
                            if extra_decl == "WSDL-IMPORT-RELATIVE":
                                # a relative wsdl:import location is relative to the importing document's URL - also
                                # when a file of that name happens to lie in the working directory
                                main = wsdlkit.wsdl_doc(schema, "f", "fResponse").replace(
                                    b"<wsdl:types>", b'<wsdl:import namespace="urn:inc" location="local.xsd"/><wsdl:types>', 1)
                            elif extra_decl == "WSDL-FOREIGN-SCHEMA-ELEMENT":
                                # an element called `schema` of another vocabulary under wsdl:types is no XSD schema:
                                # what it holds names no document
                                main = wsdlkit.wsdl_doc(schema, "f", "fResponse").replace(
                                    b"<wsdl:types>", b'<wsdl:types><o:schema xmlns:o="urn:not-xsd" targetNamespace="urn:fs">'
                                    b'<xsd:import namespace="urn:fx" schemaLocation="http://127.0.0.1:9/foreign-schema.xsd"/>'
                                    b'<xsd:include schemaLocation="file://' + local.encode() + b'"/></o:schema>', 1)
                            elif extra_decl.startswith("WSDL-IMPORT-"):
                                # a wsdl:import that names no location names no document: its namespace is a name
                                main = wsdlkit.wsdl_doc(schema, "f", "fResponse").replace(
                                    b"<wsdl:types>", b'<wsdl:import namespace="http://127.0.0.1:9/odd-wsdl-ns"%s/><wsdl:types>'
                                    % (b' location=""' if "EMPTY" in extra_decl else b""), 1)
                            elif extra_decl == "SCHEMALOCATION-HINT":
                                # an xsi:schemaLocation hint on the schema node names no document to fetch
                                main = wsdlkit.wsdl_doc('<xsd:import namespace="urn:hinted"/>' + schema, "f", "fResponse").replace(
                                    b"<xsd:schema targetNamespace=", b'<xsd:schema xmlns:xsi="http://www.w3.org/2001/XMLSchema-instance" '
                                    b'xsi:schemaLocation="urn:hinted http://127.0.0.1:9/hint.xsd" targetNamespace=', 1)
                            else:
                                main = wsdlkit.wsdl_doc(extra_decl + schema, "f", "fResponse")
                            asked = []

                            class T(suds.transport.Transport):
                                def open(self, request, main=main, asked=asked):
                                    asked.append(request.url)
                                    if request.url.endswith("main.wsdl"):
                                        return io.BytesIO(main)
                                    raise suds.transport.TransportError("no such document", 404)

                                def send(self, request):
                                    raise AssertionError("no send")
                            try:
                                cl = suds.client.Client("http://fetch.invalid/main.wsdl", transport=T(), cache=None)
                                out.append(str(cl) + str(cl.wsdl.schema))
                            except Exception as e:
                                out.append(type(e).__name__)
                            if extra_decl.startswith(("<xl:", '<xsd:import namespace="http://127.0.0.1', "<xsd:redefine",
                                                      '<xsd:import namespace="urn:inc"/>', "SCHEMALOCATION-HINT",
                                                      "WSDL-IMPORT-NO-LOCATION", "WSDL-FOREIGN-SCHEMA-ELEMENT")) and len(asked) != 1:
                                out.append("%s fetched: %r" % (MARK, asked[1:]))
                            if any(u.startswith("file:") or not u.startswith(("http://fetch.invalid/", "suds:"))
                                   for u in asked):
                                out.append("%s fetched: %r" % (MARK, asked))
                        # the document the caller named is not a WSDL (a service page): that is an error, not a
                        # reason to go looking for the WSDL somewhere else
                        page_asked = []

                        class TP(suds.transport.Transport):
                            def open(self, request):
                                page_asked.append(request.url)
                                if request.url == "http://fetch.invalid/service":
                                    return io.BytesIO(b"<html><body><a href='service?wsdl'>WSDL</a></body></html>")
                                return io.BytesIO(wsdlkit.wsdl_doc(schema, "f", "fResponse"))

                            def send(self, request):
                                raise AssertionError("no send")
                        try:
                            cl = suds.client.Client("http://fetch.invalid/service", transport=TP(), cache=None)
                            out.append(str(cl))
                        except Exception as e:
                            out.append(type(e).__name__)
                        if page_asked != ["http://fetch.invalid/service"]:
                            out.append("%s fetched: %r" % (MARK, page_asked[1:]))
                        return " ".join(out)

                    def ep_application_parser(reply=reply, c=c):
                        # the application uses the parser factory for a trusted document of its own and switches
                        # external entities on THERE: documents suds parses afterwards are not affected
                        from xml.sax.handler import feature_external_ges
                        p, _h = Parser.saxparser()
                        p.setFeature(feature_external_ges, 1)
                        return str(c.service.f("x", __inject={"reply": reply})) + Parser().parse(string=reply).root().plain()

                    def ep_huge_reply(c=c):
                        # size does not change how a reply is parsed: no spill to disk
                        big = ('<e:Envelope xmlns:e="%s"><e:Body><fResponse xmlns="%s"><r>%s</r></fResponse></e:Body>'
                               '</e:Envelope>' % (xmlread.ENV11, wsdlkit.TNS, "x" * (5 * 1024 * 1024))).encode()
                        return str(len(str(c.service.f("x", __inject={"reply": big}))))
                    def ep_cache_folder_only(schema=schema):
                        # a cache is the folder it was given: on a miss nothing is looked up in any other folder - not in
                        # the default one under the temporary directory either, where a same-named file lies
                        import tempfile
                        cd = os.path.join(work, "cache-own-%d" % (abs(hash(name)) % 10**6))
                        tmp = os.path.join(work, "tmp-of-the-process-%d" % (abs(hash(name)) % 10**6))
                        os.makedirs(os.path.join(tmp, "suds"), exist_ok=True)
                        old_tmp = tempfile.tempdir
                        tempfile.tempdir = tmp
                        try:
                            store = suds.store.DocumentStore()
                            store.update({"main.wsdl": wsdlkit.wsdl_doc(schema, "f", "fResponse")})
                            for cls, pol in ((suds.cache.DocumentCache, 0), (suds.cache.ObjectCache, 1)):
                                suds.client.Client("suds://main.wsdl", documentStore=store, cache=cls(location=cd), cachingpolicy=pol)
                            planted = wsdlkit.wsdl_doc(schema.replace('name="f"', 'name="%s"' % MARK), MARK, "fResponse", op=MARK)
                            RECORD[0] = False          # (the harness's own writes)
                            for fn in os.listdir(cd):
                                if fn.startswith("suds-"):
                                    with open(os.path.join(tmp, "suds", fn), "wb") as fh:
                                        fh.write(planted)
                                    os.remove(os.path.join(cd, fn))
                            RECORD[0] = True
                            out = []
                            for cls, pol in ((suds.cache.DocumentCache, 0), (suds.cache.ObjectCache, 1)):
                                try:
                                    out.append(str(suds.client.Client("suds://main.wsdl", documentStore=store,
                                                                      cache=cls(location=cd), cachingpolicy=pol)))
                                except Exception as e:
                                    out.append(type(e).__name__)
                            return " ".join(out)
                        finally:
                            tempfile.tempdir = old_tmp

                    def ep_cache_protocols(schema=schema):
                        # the document loaded is the one the caller named: a document cached under one protocol is not
                        # served for the same host and path under another one
                        import io
                        cd = os.path.join(work, "cache-protocols-%d" % (abs(hash(name)) % 10**6))
                        first = wsdlkit.wsdl_doc(schema.replace('name="f"', 'name="%s"' % MARK), MARK, "fResponse", op=MARK)
                        second = wsdlkit.wsdl_doc(schema, "f", "fResponse")
                        asked = []

                        class TT(suds.transport.Transport):
                            def open(self, request):
                                asked.append(request.url)
                                return io.BytesIO(first if request.url.startswith("http:") else second)

                            def send(self, request):
                                raise AssertionError("no send")
                        suds.client.Client("http://fetch.invalid/p/main.wsdl", transport=TT(), cache=suds.cache.DocumentCache(location=cd),
                                           cachingpolicy=0)
                        out = []
                        for url in ("https://fetch.invalid/p/main.wsdl", "ftp://fetch.invalid/p/main.wsdl"):
                            cl = suds.client.Client(url, transport=TT(), cache=suds.cache.DocumentCache(location=cd), cachingpolicy=0)
                            out.append(str(cl))
                        if asked != ["http://fetch.invalid/p/main.wsdl", "https://fetch.invalid/p/main.wsdl",
                                     "ftp://fetch.invalid/p/main.wsdl"]:
                            out.append("%s not fetched: %r" % (MARK, asked))
                        return " ".join(out)
                    def ep_include_chain(schema=schema):
                        # documents are fetched from the locations the documents name: a relative location inside an
                        # included document of another folder is relative to that document
                        import io
                        XSD_ = "http://www.w3.org/2001/XMLSchema"
                        main = wsdlkit.wsdl_doc('<xsd:include schemaLocation="sub/deep/a.xsd"/>' + schema, "f", "fResponse")
                        docs_ = {"http://fetch.invalid/main.wsdl": main,
                                 "http://fetch.invalid/sub/deep/a.xsd": (
                                     '<xsd:schema xmlns:xsd="%s" targetNamespace="%s"><xsd:include schemaLocation="b.xsd"/>'
                                     '<xsd:include schemaLocation="../c.xsd"/></xsd:schema>' % (XSD_, wsdlkit.TNS)).encode(),
                                 "http://fetch.invalid/sub/deep/b.xsd": (
                                     '<xsd:schema xmlns:xsd="%s" targetNamespace="%s"><xsd:element name="eb" type="xsd:string"/>'
                                     '</xsd:schema>' % (XSD_, wsdlkit.TNS)).encode(),
                                 "http://fetch.invalid/sub/c.xsd": (
                                     '<xsd:schema xmlns:xsd="%s" targetNamespace="%s"><xsd:import namespace="urn:far" '
                                     'schemaLocation="far/d.xsd"/></xsd:schema>' % (XSD_, wsdlkit.TNS)).encode(),
                                 "http://fetch.invalid/sub/far/d.xsd": (
                                     '<xsd:schema xmlns:xsd="%s" targetNamespace="urn:far"><xsd:element name="ed" type="xsd:string"/>'
                                     '</xsd:schema>' % XSD_).encode()}
                        asked = []

                        class TC(suds.transport.Transport):
                            def open(self, request):
                                asked.append(str(request.url))
                                if str(request.url) not in docs_:
                                    raise suds.transport.TransportError("no such document", 404)
                                return io.BytesIO(docs_[str(request.url)])

                            def send(self, request):
                                raise AssertionError("no send")
                        try:
                            out = str(suds.client.Client("http://fetch.invalid/main.wsdl", transport=TC(), cache=None))
                        except Exception as e:
                            out = "%s: %s" % (type(e).__name__, e)
                        if sorted(asked) != sorted(docs_):
                            out += " %s fetched: %r" % (MARK, sorted(set(asked) - set(docs_)) or asked)
                        return out

                    def ep_default_store(schema=schema):
                        # a client given its own document store and transport takes documents from these two: what some
                        # other code registered with the library-wide default store is not its business
                        import io
                        extra_real = ('<xsd:schema xmlns:xsd="http://www.w3.org/2001/XMLSchema" targetNamespace="urn:extra">'
                                      '<xsd:element name="real" type="xsd:string"/></xsd:schema>').encode()
                        extra_other = extra_real.replace(b'name="real"', b'name="%s"' % MARK.encode())
                        key = "fetch.invalid/registered-elsewhere/extra.xsd"
                        suds.store.defaultDocumentStore.update({key: extra_other})
                        main = wsdlkit.wsdl_doc('<xsd:import namespace="urn:extra" schemaLocation="http://%s"/>' % key + schema,
                                                "f", "fResponse")
                        asked = []

                        class TD(suds.transport.Transport):
                            def open(self, request):
                                asked.append(str(request.url))
                                return io.BytesIO(main if str(request.url).endswith("main.wsdl") else extra_real)

                            def send(self, request):
                                raise AssertionError("no send")
                        try:
                            cl = suds.client.Client("http://fetch.invalid/main.wsdl", transport=TD(), cache=None,
                                                    documentStore=suds.store.DocumentStore())
                            out = str(cl) + str(cl.wsdl.schema)
                        except Exception as e:
                            out = "%s: %s" % (type(e).__name__, e)
                        finally:
                            suds.store.defaultDocumentStore._DocumentStore__store.pop(key, None)
                        if asked != ["http://fetch.invalid/main.wsdl", "http://" + key]:
                            out += " %s not fetched through the client's transport: %r" % (MARK, asked)
                        return out

                    def ep_environment_proxy(schema=schema):
                        # the stock transport connects to the host the caller named - a proxy named only by the process
                        # environment is nobody's configuration (real sockets: observed at the two servers)
                        was = RECORD[0]
                        RECORD[0] = False          # (the harness's own imports and servers)
                        from harness.props import c15
                        import suds.transport.http
                        origin, proxy = c15.Server(), c15.Server()
                        saved = {k_: os.environ.get(k_) for k_ in ("http_proxy", "HTTP_PROXY", "no_proxy", "NO_PROXY", "all_proxy", "ALL_PROXY")}
                        try:
                            for k_ in saved:
                                os.environ.pop(k_, None)
                            os.environ["http_proxy"] = os.environ["HTTP_PROXY"] = "http://127.0.0.1:%d" % proxy.port
                            body_ = wsdlkit.wsdl_doc(schema, "f", "fResponse", location=origin.url("/svc"))
                            origin.httpd.plan = lambda h: {"status": 200, "body": body_}
                            proxy.httpd.plan = lambda h: {"status": 200, "body": body_.replace(b'name="f"', b'name="%s"' % MARK.encode())}
                            try:
                                out = str(suds.client.Client(origin.url("/main.wsdl"), cache=None,
                                                             transport=suds.transport.http.HttpTransport()))
                            except Exception as e:
                                out = "%s: %s" % (type(e).__name__, e)
                            if proxy.httpd.seen or len(origin.httpd.seen) != 1:
                                out += " %s connected elsewhere: proxy saw %d request(s), the named host %d" % (
                                    MARK, len(proxy.httpd.seen), len(origin.httpd.seen))
                            return out
                        finally:
                            for k_, v_ in saved.items():
                                if v_ is None:
                                    os.environ.pop(k_, None)
                                else:
                                    os.environ[k_] = v_
                            origin.close()
                            proxy.close()
                            RECORD[0] = was
                    def ep_doctor_and_builtin_locations(schema=schema):
                        # (a) the locations suds has built in for namespaces are the three it documents; a well-known
                        # namespace imported without a location names no document; (b) an ImportDoctor import without
                        # a location names none either, and one for a namespace the schema already imports from its own
                        # location does not add a second place to fetch from
                        import io
                        import suds.xsd.doctor
                        import suds.xsd.sxbasic
                        out = []
                        want_bound = {"http://schemas.xmlsoap.org/soap/encoding/": "suds://schemas.xmlsoap.org/soap/encoding/",
                                      "http://www.w3.org/XML/1998/namespace": "http://www.w3.org/2001/xml.xsd",
                                      "http://www.w3.org/2001/XMLSchema": "http://www.w3.org/2001/XMLSchema.xsd"}
                        if dict(suds.xsd.sxbasic.Import.locations) != want_bound:
                            out.append("%s built-in locations: %r" % (MARK, sorted(set(suds.xsd.sxbasic.Import.locations) - set(want_bound))))
                        known = ["http://www.w3.org/2005/08/addressing", "http://schemas.xmlsoap.org/ws/2004/08/addressing",
                                 "http://docs.oasis-open.org/wss/2004/01/oasis-200401-wss-wssecurity-secext-1.0.xsd",
                                 "http://www.w3.org/2000/09/xmldsig#", "http://www.w3.org/1999/xlink",
                                 "http://schemas.xmlsoap.org/soap/envelope/", "http://www.w3.org/2003/05/soap-envelope",
                                 "http://schemas.xmlsoap.org/wsdl/", "http://www.w3.org/2005/05/xmlmime"]
                        own = ('<xsd:schema xmlns:xsd="http://www.w3.org/2001/XMLSchema" targetNamespace="urn:own"><xsd:element '
                               'name="o" type="xsd:string"/></xsd:schema>').encode()
                        cases = [("known-namespaces", "".join('<xsd:import namespace="%s"/>' % n for n in known), None, []),
                                 ("doctor-without-location", "", suds.xsd.doctor.Import("http://127.0.0.1:9/doctored-ns"), []),
                                 ("doctor-next-to-own-import", '<xsd:import namespace="urn:own" schemaLocation="http://fetch.invalid/own.xsd"/>',
                                  suds.xsd.doctor.Import("urn:own", "http://127.0.0.1:9/doctor-own.xsd"), ["http://fetch.invalid/own.xsd"])]
                        for label, decl, imp, extra_urls in cases:
                            main = wsdlkit.wsdl_doc(decl + schema, "f", "fResponse")
                            asked = []

                            class TQ(suds.transport.Transport):
                                def open(self, request, main=main, asked=asked):
                                    asked.append(str(request.url))
                                    if str(request.url).endswith("main.wsdl"):
                                        return io.BytesIO(main)
                                    if str(request.url) == "http://fetch.invalid/own.xsd":
                                        return io.BytesIO(own)
                                    raise suds.transport.TransportError("no such document", 404)

                                def send(self, request):
                                    raise AssertionError("no send")
                            kw = {} if imp is None else {"doctor": suds.xsd.doctor.ImportDoctor(imp)}
                            try:
                                out.append(str(suds.client.Client("http://fetch.invalid/main.wsdl", transport=TQ(), cache=None, **kw)))
                            except Exception as e:
                                out.append("%s: %s" % (type(e).__name__, e))
                            if asked != ["http://fetch.invalid/main.wsdl"] + extra_urls:
                                out.append("%s fetched (%s): %r" % (MARK, label, asked[1:]))
                        return " ".join(out)
                    def ep_graph_shapes_of_c12():
                        # two shapes from the document-graph checks, seen from here: every URL fetched is one a document
                        # names - (a) a same-namespace schema document of another folder with a relative include, (b) two
                        # documents whose locations differ only in letter case, through a document cache
                        import io
                        out = []
                        err, opened, want = c12.same_namespace_in_two_documents()
                        if err is not None or opened != want:
                            out.append("%s fetched (consolidated relative location): %r %r" % (MARK, err, sorted(set(opened) - set(want))))
                        XS_ = "http://www.w3.org/2001/XMLSchema"

                        def xsd_(ns, tname):
                            return ('<xsd:schema xmlns:xsd="%s" targetNamespace="%s"><xsd:complexType name="%s"><xsd:sequence>'
                                    '<xsd:element name="m" type="xsd:int"/></xsd:sequence></xsd:complexType></xsd:schema>'
                                    % (XS_, ns, tname)).encode()
                        u1, u2 = "http://fetch.invalid/s/Types.xsd", "http://fetch.invalid/s/types.xsd"
                        docs_ = {"http://fetch.invalid/main.wsdl": wsdlkit.wsdl_doc(
                            '<xsd:import namespace="urn:one" schemaLocation="%s"/><xsd:import namespace="urn:two" schemaLocation="%s"/>'
                            % (u1, u2) + schema, "f", "fResponse"), u1: xsd_("urn:one", "One"), u2: xsd_("urn:two", "Two")}
                        asked = []

                        class TG(suds.transport.Transport):
                            def open(self, request):
                                asked.append(str(request.url))
                                return io.BytesIO(docs_[str(request.url)])

                            def send(self, request):
                                raise AssertionError("no send")
                        cd = os.path.join(work, "cache-case-%d" % (abs(hash(name)) % 10**6))
                        try:
                            cl = suds.client.Client("http://fetch.invalid/main.wsdl", transport=TG(),
                                                    cache=suds.cache.DocumentCache(location=cd), cachingpolicy=0)
                            cl.factory.create("{urn:one}One")
                            cl.factory.create("{urn:two}Two")
                            out.append(str(cl))
                        except Exception as e:
                            out.append("%s a document was served as another one: %s: %s" % (MARK, type(e).__name__, e))
                        if sorted(asked) != sorted(docs_):
                            out.append("%s not each fetched: %r" % (MARK, asked))
                        return " ".join(out)
                    extra = [("transport-fetch", ep_transport_fetch), ("str-reply", ep_str_reply),
                             ("store-served", ep_store_served), ("huge-reply", ep_huge_reply)] if rep == 0 and \
                        name in ("none", "internal-only") else []
                    if rep == 0:
                        extra.append(("mutable-content", ep_mutable_content))
                        extra.append(("application-parser", ep_application_parser))
                    if rep == 0 and name in ("none", "internal-only"):
                        extra.append(("send-only-transport", ep_send_only_transport))
                        extra.append(("odd-locations", ep_odd_locations))
                        extra.append(("cache-folder-only", ep_cache_folder_only))
                        extra.append(("cache-protocols", ep_cache_protocols))
                        extra.append(("include-chain", ep_include_chain))
                        extra.append(("graph-shapes", ep_graph_shapes_of_c12))
                        extra.append(("doctor-and-builtin-locations", ep_doctor_and_builtin_locations))
                        extra.append(("default-store", ep_default_store))
                        if name == "none":
                            extra.append(("environment-proxy", ep_environment_proxy))
                    entry_points = extra + [("error-path", ep_error_path), ("import-url", ep_import_url),
                                    ("inject", ep_inject), ("transport", ep_transport), ("reqctx", ep_reqctx),
                                    ("parser", ep_parser), ("wsdl", ep_wsdl), ("import", ep_import), ("cache", ep_cache)]
                    for epname, fn in entry_points:
                        meta = {"doctype": name, "entry": epname, "ref": ref, "rep": rep}
                        allowed_prefix = os.path.join(work, "cache-")
                        with Recording():
                            try:
                                res = fn()
                                out = str(res)
                                err = None
                            except Exception as e:
                                out = ""
                                err = type(e).__name__
                        evs = [e for e in EVENTS
                               if not (e[0] in ("open", "os.listdir") and allowed_prefix in e[1])
                               and not (e[0] == "open" and (("/suds/" in e[1] and e[1].rstrip("'").endswith(".py"))
                                                         or e[1].endswith(".pyc'") or "/lib/python" in e[1]))]
                        ctx.case(common.canon(meta), name != "none")
                        ctx.dist["entry=" + epname] += 1
                        ctx.dist["result=" + (err or "parsed")] += 1
                        if evs:
                            ctx.fail("parsing reached outside the document (file/network access observed)", meta,
                                     evs[:4], "no I/O")
                        if MARK in out:
                            ctx.fail("external content was included in the parsed result", meta,
                                     out[max(0, out.find(MARK) - 160):out.find(MARK) + 120], "no external content")
        finally:
            os.chdir(cwd)
    finally:
        shutil.rmtree(work, ignore_errors=True)
    ctx.sample({"doctype": '<!DOCTYPE r [<!ENTITY x SYSTEM "file:///.../secret.txt">]>', "entry": "inject", "ref": "&x;"})
    ctx.sample({"doctype": '<!DOCTYPE r SYSTEM "http://127.0.0.1:9/...">', "entry": "wsdl"})


def widen(ctx):
    ctx.tier = "thorough"
    run(ctx)


def replay(ctx, payload):
    return {"fails": bool(payload.get("failure")), "recorded": payload.get("failure")}
