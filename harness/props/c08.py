"""C08 - Call arguments bind to parameters like Python arguments, or fail loudly."""
import itertools

from harness import common, wsdlkit, xmlread

ID = "C08"
LEAN_MODULES = ["SudsModel.Props.C08"]
RULE = ("parameter trees (sequence/choice nesting, every optional marking, incl. empty containers) x argument "
        "vectors (every positional prefix with values/None, every keyword subset incl. duplicates and unknown "
        "names) x extraArgumentErrors; small trees exhaustively, larger sampled; non-trivial = the tree has a "
        "choice or the vector is not the plain all-positional call; distinct = distinct (tree, vector, flag)"
        ' ; plus: bad calls with unwrapping disabled, extraArgumentErrors switched on a client in use, unknown keywords with None values and reserved-looking names; rejected calls under faults=False and with an injected reply; wrapper types carrying an attribute (dict key _id)'
        ' ; a clone switching the checking off leaves the original as it was'
        ' ; the per-call timeout keyword next to the arguments'
        ' ; repeating parameters as tuples; a wrapper whose named type lives in another namespace'
        ' ; xsd:all below the top level; partial dicts and objects filled out of order'
        ' ; a wrapper of a namespace without prefix; allowUnknownMessageParts does not relax argument checking'
        ' ; lists and None items for repeating and single parameters; a wildcard among the parameters'
        ' ; wrapper elements that name their type')
ASSUMPTIONS = ["ancestry items are compared by identity (`is`), modelled as unique ids",
               "Python dict preserves keyword insertion order (first leftover keyword is reported)"]
PARTIAL = [
    {"theorem": "object/dict with unwrap=False equals positional call",
     "missing": "proved only through the marshaller correspondence (C01); checked here on real clients"},
]
TRUSTED = []

# ---------------------------------------------------------------- tree enumeration

def forests(n, depth, allow_empty=True):
    """All lists of items with exactly n leaves; item = ('leaf', optional) | (kind, kids)."""
    if n == 0:
        yield []
        return
    # first item is a leaf
    for opt in (False, True):
        for rest in forests(n - 1, depth, allow_empty):
            yield [("leaf", opt)] + rest
    if depth > 0:
        for m in range(0 if allow_empty else 1, n + 1):
            for kind in ("seq", "choice"):
                for kids in forests(m, depth - 1, False if m == 0 else allow_empty):
                    if m == 0 and kids:
                        continue
                    for rest in forests(n - m, depth, allow_empty and m != 0):
                        yield [(kind, kids)] + rest


def number(forest, counter=None, names=None):
    """Assign ids to containers and names to leaves -> JSON forest for the model."""
    if counter is None:
        counter, names = [0], [0]
    out = []
    for it in forest:
        if it[0] == "leaf":
            names[0] += 1
            out.append({"name": "p%d" % names[0], "optional": it[1]})
        else:
            counter[0] += 1
            i = counter[0]
            node = {"id": i, "choice": it[0] == "choice", "kids": number(it[1], counter, names)}
            if it[0] == "all":
                node["kind"] = "all"          # (a container that is no choice, like a sequence)
            out.append(node)
    return out


class Anc:
    def __init__(self, i, choice):
        self.i, self._c = i, choice

    def choice(self):
        return self._c


class PType:
    def __init__(self, optional):
        self._o = optional

    def optional(self):
        return self._o


def flatten(jforest, path, objs, out):
    for it in jforest:
        if "kids" in it:
            a = objs.setdefault(it["id"], Anc(it["id"], it["choice"]))
            flatten(it["kids"], path + [a], objs, out)
        else:
            out.append((it["name"], PType(it["optional"]), list(path)))
    return out


def real_parse(jforest, args, kwargs, strict):
    from suds.argparser import parse_args
    defs = flatten(jforest, [], {}, [])
    delivered = []

    def proc(name, ptype, in_choice, value):
        delivered.append([name, bool(in_choice), value])
    try:
        rq, al = parse_args("f", defs, list(args), dict(kwargs), proc, strict)
    except TypeError as e:
        return {"err": classify_message(str(e))}, str(e)
    return {"required": rq, "allowed": al, "delivered": delivered}, None


def classify_message(msg):
    import re
    if msg == "f() got multiple values for a single choice parameter":
        return ["multiChoice"]
    m = re.fullmatch(r"f\(\) got multiple values for parameter '(.*)'", msg)
    if m:
        return ["multipleValues", m.group(1)]
    m = re.fullmatch(r"f\(\) got an unexpected keyword argument '(.*)'", msg)
    if m:
        return ["unexpectedKw", m.group(1)]
    m = re.fullmatch(r"f\(\) takes (\d+)(?: to (\d+))? positional arguments? but (\d+) (?:was|were) given", msg)
    if m:
        rq = int(m.group(1))
        al = int(m.group(2)) if m.group(2) else rq
        return ["positional", rq, al, int(m.group(3))]
    return ["other", msg]


def message_of(err):
    """The exact TypeError text the documented format prescribes for an error kind."""
    if err[0] == "multiChoice":
        return "f() got multiple values for a single choice parameter"
    if err[0] == "multipleValues":
        return "f() got multiple values for parameter '%s'" % err[1]
    if err[0] == "unexpectedKw":
        return "f() got an unexpected keyword argument '%s'" % err[1]
    if err[0] == "positional":
        rq, al, given = err[1:]
        expected = "%d" % rq if rq == al else "%d to %d" % (rq, al)
        plural = "" if (rq == al and rq == 1) else "s"
        return "f() takes %s positional argument%s but %d %s given" % (
            expected, plural, given, "was" if given == 1 else "were")
    return "?"


def vectors(names, rng, limit):
    """Argument vectors: (args, kwargs-as-ordered-list)."""
    n = len(names)
    allv = []
    for k in range(0, n + 2):
        for a in itertools.product(("v", None), repeat=k):
            allv.append(list(a))
    kws = []
    for pat in itertools.product((0, 1, 2), repeat=n):
        for unk in (0, 1, 2, 3):
            kw = [(names[i], "k" if p == 1 else None) for i, p in enumerate(pat) if p]
            if unk:
                # an unknown keyword: with a value, with None, or named like suds' own reserved keywords
                kw.append({1: ("zz", "k"), 2: ("zz", None), 3: ("__zz", "k")}[unk])
            kws.append(kw)
    total = len(allv) * len(kws)
    if total <= limit:
        for a in allv:
            for kw in kws:
                kw2 = list(kw)
                rng.shuffle(kw2)
                yield a, kw2
    else:
        for _ in range(limit):
            kw2 = list(rng.choice(kws))
            rng.shuffle(kw2)
            yield rng.choice(allv), kw2


def has_choice(jforest):
    return any(("kids" in it) and (it["choice"] or has_choice(it["kids"])) for it in jforest)


def has_empty(jforest):
    return any(("kids" in it) and (not it["kids"] or has_empty(it["kids"])) for it in jforest)


def rand_forest(rng, n, depth):
    out = []
    while n > 0:
        if depth == 0 or rng.random() < 0.45:
            out.append(("leaf", rng.random() < 0.5))
            n -= 1
        else:
            m = rng.randint(1, n)
            out.append((rng.choice(("seq", "choice", "choice")), rand_forest(rng, m, depth - 1)))
            n -= m
    return out


def insert_empty(rng, forest, depth=2):
    """Insert one empty container somewhere (the documented boundary shape)."""
    f = list(forest)
    conts = [i for i, it in enumerate(f) if it[0] != "leaf"]
    if conts and depth > 0 and rng.random() < 0.6:
        i = rng.choice(conts)
        f[i] = (f[i][0], insert_empty(rng, f[i][1], depth - 1))
    else:
        f.insert(rng.randint(0, len(f)), (rng.choice(("seq", "choice")), []))
    return f


def parser_correspondence(ctx):
    rng = ctx.rng
    trees = []
    exh = ctx.pick([(0, 3), (1, 3), (2, 3), (3, 1)], [(0, 3), (1, 3), (2, 3), (3, 2), (4, 1)])
    for n, d in exh:
        for f in forests(n, d, False):
            # the real wrapper always has an outer non-choice container chain
            trees.append(number([("seq", f)]))
    exhaustive_trees = len(trees)
    max_exh = exh[-1][0]
    big = []
    for _ in range(ctx.pick(500, 6000)):
        f = rand_forest(rng, rng.randint(3, 6), 3)
        if rng.random() < 0.25:
            f = insert_empty(rng, f)
        big.append(number([("seq", f)]))
    for f in list(forests(2, 2, False))[:200]:
        big.append(number([("seq", insert_empty(rng, f))]))
    # forests directly under the sentinel (several roots / bare leaves)
    for f in forests(3, 1, False):
        kinds = {it[0] == "leaf" for it in f}
        if len(kinds) == 1:
            trees.append(number(f))
    trees += big
    per_tree = ctx.pick(30, 120)
    reqs, reals, metas = [], [], []
    for jf in trees:
        names = [l[0] for l in flatten(jf, [], {}, [])]
        lim = per_tree if len(names) > 1 else 5000
        for args, kw in vectors(names, rng, lim):
            for strict in (True, False):
                r, msg = real_parse(jf, args, kw, strict)
                reals.append((r, msg))
                reqs.append({"op": "argp.both", "forest": jf, "args": args,
                             "kwargs": [{"k": k, "v": v} for k, v in kw], "strict": strict})
                metas.append((jf, args, kw, strict))
    answers = ctx.driver.ask(reqs)
    for (jf, args, kw, strict), (real, msg), ans in zip(metas, reals, answers):
        inp = {"forest": jf, "args": args, "kwargs": kw, "strict": strict}
        nontrivial = has_choice(jf) or bool(kw) or (None in args)
        ctx.case(common.digest(inp), nontrivial)
        ctx.dist["leaves=%d" % len(flatten(jf, [], {}, []))] += 1
        ctx.dist["outcome=" + (real["err"][0] if "err" in real else "ok")] += 1
        if has_empty(jf):
            ctx.dist["has_empty_container"] += 1
        if ans is not None:
            ctx.compare("parse_args~Impl", inp, real, ans["impl"])
            # the Spec is the property's oracle (sum / min / one value per choice / Python-like errors);
            # trees with an empty container are a documented boundary: the Spec mirrors the code there
            if real != ans["spec"]:
                ctx.fail("parse_args differs from the recursive rule", inp, real, ans["spec"])
        # message text is part of the observable
        if "err" in real:
            if real["err"][0] == "other" or message_of(real["err"]) != msg:
                ctx.fail("TypeError text not in the documented format", inp, msg, message_of(real["err"]))
            if not strict:
                ctx.fail("call rejected although extra-argument checking is disabled", inp, msg, "no error")
    ctx.notes.append("parser: %d trees exhaustively (<= %d leaves) + %d sampled with 5-6 leaves"
                     % (exhaustive_trees, max_exh, len(big)))
    ctx.sample({"forest": trees[min(40, len(trees) - 1)], "args": ["v", None], "kwargs": [["p3", "k"]], "strict": True})


# ---------------------------------------------------------------- real clients

def schema_of(jforest, ind=""):
    out = []
    for it in jforest:
        if "kids" in it:
            tag = "choice" if it["choice"] else it.get("kind", "sequence")
            out.append("<xsd:%s>%s</xsd:%s>" % (tag, schema_of(it["kids"]), tag))
        else:
            out.append('<xsd:element name="%s" type="xsd:string"%s/>' % (
                it["name"], ' minOccurs="0"' if it["optional"] else ""))
    return "".join(out)


def same_request(a, b):
    """Byte-identical, or identical up to the numbering of generated prefixes (ns0/ns1 follow the
    iteration order of a Python set of URIs, which differs between the wrapped and the
    un-wrapped code path and between processes; see DESIGN.md, C08)."""
    if a == b:
        return True
    return xmlread.infoset(xmlread.parse(a)) == xmlread.infoset(xmlread.parse(b))


def client_checks(ctx):
    rng = ctx.rng
    pool = []
    for n in (1, 2, 3, 4):
        for f in forests(n, 2, allow_empty=False):
            pool.append(f)
    picks = rng.sample(pool, min(len(pool), ctx.pick(25, 300)))
    def with_alls(forest):
        # some of the sequence containers written as xsd:all (suds reads an all group wherever it stands)
        return [it if it[0] == "leaf" else (("all" if it[0] == "seq" and rng.random() < 0.4 else it[0]), with_alls(it[1]))
                for it in forest]
    L, O = ("leaf", False), ("leaf", True)
    fixed = [[("choice", [("all", [L, L]), L])], [("choice", [("all", [L, O, L]), ("seq", [L, L])]), L],
             [("all", [("choice", [L, L]), L, O])], [L, ("choice", [O, ("all", [L, L])])]]
    for f in fixed + picks:
        top_kind = rng.choice(["sequence", "all"]) if all(it[0] == "leaf" for it in f) else "sequence"
        if f not in fixed:
            f = with_alls(f)
        jf = number(f)
        inner = schema_of(jf)
        # (the wrapper type may carry an XML attribute: not a parameter, but a key `_id` of a dict / factory object)
        with_attr = rng.random() < 0.5
        schema = ('<xsd:element name="f"><xsd:complexType><xsd:%s>%s</xsd:%s>%s</xsd:complexType></xsd:element>'
                  % (top_kind, inner, top_kind, '<xsd:attribute name="id" type="xsd:string"/>' if with_attr else ""))
        w = wsdlkit.wsdl_doc(schema, "f", None)
        tr = wsdlkit.RecordingTransport(reply=None)
        c = wsdlkit.client(w, transport=tr)
        c_nofaults = wsdlkit.client(w, nosend=True, faults=False)
        c_ns = wsdlkit.client(w, nosend=True)
        c_lax = wsdlkit.client(w, nosend=True, extraArgumentErrors=False)
        c_aump = wsdlkit.client(w, nosend=True, allowUnknownMessageParts=True)
        c_raw = wsdlkit.client(w, nosend=True, unwrap=False)
        names = [l[0] for l in flatten(jf, [], {}, [])]
        model_forest = [{"id": 1000, "choice": False, "kids": [{"id": 1001, "choice": False, "kids":
                        [{"id": 1002, "choice": False, "kids": jf}]}]}]
        # param_defs of the real client must be the flattening of the tree
        m = c_ns.service.f.method
        defs = m.binding.input.param_defs(m)
        real_shape = [(d[0], bool(d[1].optional()), [bool(a.choice()) for a in d[2]][3:]) for d in defs]
        exp_shape = [(l[0], l[1].optional(), [a.choice() for a in l[2]]) for l in flatten(jf, [], {}, [])]
        if real_shape != exp_shape:
            ctx.fail("param_defs is not the flattening of the schema tree", {"schema": schema},
                     real_shape, exp_shape)
        # unwrapping disabled: the interface is ONE parameter (the element); surplus positionals, unknown keywords and
        # two values for it are rejected all the same, and accepted with extra-argument checking off
        mraw = c_raw.service.f.method
        pname = mraw.binding.input.param_defs(mraw)[0][0]
        c_raw_lax = wsdlkit.client(w, nosend=True, unwrap=False, extraArgumentErrors=False)
        whole = {nme: "w" for nme in names[:1]}
        for label, a, k in (("surplus positional", (whole, "surplus"), {}), ("unknown keyword", (whole,), {"zzz": 1}),
                            ("two values for the parameter", (whole,), {pname: whole})):
            inp = {"schema": schema, "unwrap": False, "bad_call": label}
            ctx.case(common.digest(inp), True)
            try:
                c_raw.service.f(*a, **k)
                ctx.fail("with unwrapping disabled a bad call is not rejected", inp, "accepted", "TypeError")
            except TypeError:
                pass
            except Exception as e:
                ctx.fail("with unwrapping disabled a bad call fails oddly", inp, repr(e), "TypeError")
            try:
                c_raw_lax.service.f(*a, **k)
            except TypeError as e:
                ctx.fail("call rejected although extraArgumentErrors is off", inp, str(e), "accepted")
            except Exception:
                pass
        # a clone that switches the checking off for itself does not switch it off for the client it was made from
        # (what the clone itself then does is known finding D49 of C14)
        if rng.random() < 0.3:
            c_orig = wsdlkit.client(w, nosend=True)
            c_orig.clone().set_options(extraArgumentErrors=False)
            inp = {"schema": schema, "bad_call": "unknown keyword, after clone().set_options(extraArgumentErrors=False)"}
            ctx.case(common.digest(inp), True)
            try:
                c_orig.service.f(zzz_unknown=1)
                ctx.fail("client accepted or mis-reported a call the rule rejects", inp, "accepted", "TypeError")
            except TypeError:
                pass
            except Exception as e:
                ctx.fail("a call the rule rejects fails with another error (original after clone)", inp, repr(e), "TypeError")
        # the option is read at every call: a client switched after it was built (and used) behaves like one built so
        c_tog = wsdlkit.client(w, nosend=True)
        toggled = 0
        reqs, metas = [], []
        for args, kw in vectors(names, rng, ctx.pick(30, 200)):
            args = [None if a is None else rng.choice(["v%d" % i, "v%d" % i, "", 0]) for i, a in enumerate(args)]
            kw = [(k, None if v is None else rng.choice(["k" + k, "k" + k, "", 0])) for k, v in kw]
            reqs.append({"op": "argp.both", "forest": model_forest, "args": [None if a is None else str(a) for a in args],
                         "kwargs": [{"k": k, "v": None if v is None else str(v)} for k, v in kw], "strict": True})
            metas.append((args, kw))
        answers = ctx.driver.ask(reqs)
        for (args, kw), ans in zip(metas, answers):
            inp = {"schema": schema, "args": args, "kwargs": kw}
            ctx.case(common.digest(inp), True)
            # strict client
            try:
                env = wsdlkit.envelope_bytes(c_ns.service.f(*args, **dict(kw)))
                real = ("ok", env)
            except TypeError as e:
                real = ("err", str(e))
            if ans is not None:
                spec = ans["spec"]
                if "err" in spec:
                    if real != ("err", message_of(spec["err"])):
                        ctx.fail("client accepted or mis-reported a call the rule rejects", inp, real[:2],
                                 message_of(spec["err"]))
                elif real[0] != "ok":
                    ctx.fail("client rejected a call the rule accepts", inp, real[1], "accepted")
            # rejected before anything is sent
            if real[0] == "err":
                n0 = len(tr.sent)
                try:
                    c.service.f(*args, **dict(kw))
                except TypeError:
                    pass
                if len(tr.sent) != n0:
                    ctx.fail("something was sent although the call was rejected", inp, len(tr.sent) - n0, 0)
                # rejected the same way whatever becomes of replies: faults returned as values, a simulated reply
                for label, call in (("faults=False", lambda: c_nofaults.service.f(*args, **dict(kw))),
                                    # (tolerating unknown parts of REPLIES says nothing about the arguments of a call)
                                    ("allowUnknownMessageParts=True", lambda: c_aump.service.f(*args, **dict(kw))),
                                    ("__inject reply", lambda: c_ns.service.f(*args, __inject={"reply": b""}, **dict(kw)))):
                    try:
                        r = call()
                        ctx.fail("a call the rule rejects is not rejected with TypeError (%s)" % label, inp,
                                 repr(r)[:200], real[1])
                    except TypeError as e:
                        if str(e) != real[1]:
                            ctx.fail("a rejected call reports other counts (%s)" % label, inp, str(e), real[1])
                    except Exception as e:
                        ctx.fail("a call the rule rejects fails with another error (%s)" % label, inp, repr(e), real[1])
                # with checking disabled the same call is not rejected
                try:
                    c_lax.service.f(*args, **dict(kw))
                except TypeError as e:
                    ctx.fail("call rejected although extraArgumentErrors is off", inp, str(e), "accepted")
                if toggled < 6:
                    toggled += 1
                    outcomes = []
                    for setting in (True, False, True):
                        c_tog.set_options(extraArgumentErrors=setting)
                        try:
                            c_tog.service.f(*args, **dict(kw))
                            outcomes.append("accepted")
                        except TypeError as e:
                            outcomes.append("rejected" if str(e) == real[1] else "rejected: " + str(e))
                    if outcomes != ["rejected", "accepted", "rejected"]:
                        ctx.fail("switching extraArgumentErrors on a client already built does not decide whether the "
                                 "call is rejected", dict(inp, settings=[True, False, True]), outcomes,
                                 ["rejected", "accepted", "rejected"])
                ctx.dist["client:rejected"] += 1
                continue
            ctx.dist["client:accepted"] += 1
            # the per-call transport timeout (`__timeout=`) is no argument of the operation: the call is the same call
            if rng.random() < 0.2:
                try:
                    env_t = wsdlkit.envelope_bytes(c_ns.service.f(*args, __timeout=3, **dict(kw)))
                    if env_t != real[1]:
                        ctx.fail("call styles send different requests", dict(inp, with_timeout=True),
                                 env_t.decode("utf-8"), real[1].decode("utf-8"))
                except TypeError as e:
                    ctx.fail("client rejected a call the rule accepts", dict(inp, with_timeout=True), str(e), "accepted")
            # call styles: the same assignment passed in every positional/keyword split
            assign = {}
            for nme, a in zip(names, args):
                assign[nme] = a
            for k, v in kw:
                assign[k] = v
            full = [assign.get(nme) for nme in names]
            for cut in range(0, len(names) + 1):
                kws = {nme: v for nme, v in zip(names[cut:], full[cut:])}
                pos = full[:cut]
                order = list(kws.items())
                rng.shuffle(order)
                try:
                    env2 = wsdlkit.envelope_bytes(c_ns.service.f(*pos, **dict(order)))
                except TypeError as e:
                    ctx.fail("equivalent call style rejected", dict(inp, split=cut), str(e), "accepted")
                    continue
                if env2 != real[1]:
                    ctx.fail("call styles send different requests", dict(inp, split=cut),
                             env2.decode("utf-8"), real[1].decode("utf-8"))
                ctx.case(None, False)
            # every value that was passed is in the request, in schema order, with its text
            try:
                froot = xmlread.find1(xmlread.find1(xmlread.parse(real[1]), "Body"), "f")
                sent = [(c["name"][1], c["text"]) for c in froot["children"]]
            except Exception as e:
                sent = "unreadable: %r" % (e,)
            expect = [(nme, str(v)) for nme, v in zip(names, full) if v is not None]
            got = [x for x in sent if isinstance(sent, list) and assign.get(x[0]) is not None]
            if got != expect:
                ctx.fail("request does not carry exactly the values passed, in schema order", inp, sent, expect)
            # unwrap disabled: one dict / factory object holding the same values (any key order)
            items = list(zip(names, full))
            rng.shuffle(items)
            d = dict(items)
            if rng.random() < 0.3:
                import collections
                d = rng.choice([collections.OrderedDict(items), collections.defaultdict(lambda: None, items)])
            try:
                env3 = wsdlkit.envelope_bytes(c_raw.service.f(d))
                if not same_request(env3, real[1]):
                    ctx.fail("dict with unwrap=False sends a different request", inp,
                             env3.decode("utf-8"), real[1].decode("utf-8"))
                # ... a dict that leaves the undefined members out, keys in any order
                part = [(nme, v) for nme, v in items if v is not None]
                env3p = wsdlkit.envelope_bytes(c_raw.service.f(dict(part)))
                # (what stands for a member left undefined - nothing, or an empty element where it is required - is not
                # compared here: the defined members must come with their values, in schema order)
                def defined_members(env_):
                    fr_ = xmlread.find1(xmlread.find1(xmlread.parse(env_), "Body"), "f")
                    keep_ = set(k_ for k_, _v in part)
                    return [(c_["name"], c_["text"]) for c_ in fr_["children"] if c_["name"][1] in keep_]
                if defined_members(env3p) != defined_members(real[1]):
                    ctx.fail("dict with unwrap=False sends a different request", dict(inp, keys=[k_ for k_, _ in part]),
                             env3p.decode("utf-8"), real[1].decode("utf-8"))
                # ... a factory object from which the undefined members were deleted and the others assigned in any order
                objp = c_raw.factory.create("{%s}f" % wsdlkit.TNS)
                for nme, v in items:
                    if v is None:
                        if nme in objp:
                            delattr(objp, nme)
                for nme, v in part:
                    if nme in objp:
                        delattr(objp, nme)
                    setattr(objp, nme, v)
                if with_attr:
                    objp._id = None
                env4p = wsdlkit.envelope_bytes(c_raw.service.f(objp))
                if defined_members(env4p) != defined_members(real[1]):
                    ctx.fail("factory object with unwrap=False sends a different request",
                             dict(inp, assigned_in_order=[k_ for k_, _ in part]), env4p.decode("utf-8"), real[1].decode("utf-8"))
                obj = c_raw.factory.create("{%s}f" % wsdlkit.TNS)
                for nme, v in zip(names, full):
                    setattr(obj, nme, v)
                if with_attr:
                    obj._id = None      # (what a fresh factory object holds for an attribute is C03's matter: D29)
                env4 = wsdlkit.envelope_bytes(c_raw.service.f(obj))
                if not same_request(env4, real[1]):
                    ctx.fail("factory object with unwrap=False sends a different request", inp,
                             env4.decode("utf-8"), real[1].decode("utf-8"))
                if with_attr:
                    # the same values plus the attribute: dict (keys in any order) and factory object agree, and the
                    # elements are the ones of the request without the attribute
                    items2 = items + [("_id", "i7")]
                    rng.shuffle(items2)
                    env5 = wsdlkit.envelope_bytes(c_raw.service.f(dict(items2)))
                    obj._id = "i7"
                    env6 = wsdlkit.envelope_bytes(c_raw.service.f(obj))
                    f5 = xmlread.find1(xmlread.find1(xmlread.parse(env5), "Body"), "f")
                    f0 = xmlread.find1(xmlread.find1(xmlread.parse(real[1]), "Body"), "f")
                    if not same_request(env5, env6) or f5["attrs"].get((None, "id")) != "i7" or \
                            [(k_["name"], k_["text"]) for k_ in f5["children"]] != [(k_["name"], k_["text"]) for k_ in f0["children"]]:
                        ctx.fail("dict holding an attribute key with unwrap=False sends a different request",
                                 dict(inp, keys=[k_ for k_, _ in items2]), env5.decode("utf-8"), env6.decode("utf-8"))
            except Exception as e:
                ctx.fail("unwrap=False call failed", inp, repr(e), "same request")
    ctx.sample({"client_schema": schema, "styles": "all positional/keyword splits, dict and factory object (unwrap=False)"})


def empty_wrappers(ctx):
    """An operation whose wrapper element has no parameters at all (empty complexType / sequence / choice / all):
    every positional or keyword argument is a surplus one - rejected, unless extra-argument checking is off."""
    for inner in ("", "<xsd:sequence/>", "<xsd:choice/>", "<xsd:all/>", "<xsd:sequence><xsd:sequence/></xsd:sequence>"):
        schema = '<xsd:element name="f"><xsd:complexType>%s</xsd:complexType></xsd:element>' % inner
        w = wsdlkit.wsdl_doc(schema, "f", None)
        strict, lax = wsdlkit.client(w, nosend=True), wsdlkit.client(w, nosend=True, extraArgumentErrors=False)
        for label, a, k in (("none", (), {}), ("surplus positional", ("x",), {}), ("unknown keyword", (), {"zz": 1}),
                            ("both", ("x", "y"), {"zz": None})):
            meta = {"stream": "empty-wrapper", "content": inner, "call": label}
            ctx.case(common.canon(meta), True)
            try:
                strict.service.f(*a, **k)
                got = "accepted"
            except TypeError:
                got = "TypeError"
            except Exception as e:
                got = repr(e)
            want = "accepted" if label == "none" else "TypeError"
            if got != want:
                ctx.fail("a call of an operation without parameters is not judged by the rule (surplus arguments "
                         "rejected)", meta, got, want)
            try:
                lax.service.f(*a, **k)
            except TypeError as e:
                ctx.fail("call rejected although extraArgumentErrors is off", meta, str(e), "accepted")


def repeating_and_foreign_typed_wrappers(ctx):
    """(a) a repeating parameter given as a list or as a tuple, positionally or by keyword: one request; (b) a wrapper
    element whose named type lives in another namespace: the unwrapped call, and the dict and the factory object with
    unwrapping disabled, send the same request - the wrapper in the element's namespace."""
    schema = ('<xsd:element name="f"><xsd:complexType><xsd:sequence><xsd:element name="a" type="xsd:string"/>'
              '<xsd:element name="r" type="xsd:int" minOccurs="0" maxOccurs="unbounded"/></xsd:sequence></xsd:complexType>'
              '</xsd:element>')
    c = wsdlkit.client(wsdlkit.wsdl_doc(schema, "f", None), nosend=True)
    want = wsdlkit.envelope_bytes(c.service.f("x", [1, 2, 3]))
    for label, call in (("tuple positional", lambda: c.service.f("x", (1, 2, 3))),
                        ("tuple keyword", lambda: c.service.f(a="x", r=(1, 2, 3))),
                        ("list keyword", lambda: c.service.f(r=[1, 2, 3], a="x")),
                        ("mixed", lambda: c.service.f("x", r=(1, 2, 3)))):
        meta = {"stream": "repeating-parameter", "style": label}
        ctx.case(common.canon(meta), True)
        try:
            got = wsdlkit.envelope_bytes(call())
        except Exception as e:
            got = ("%s: %s" % (type(e).__name__, e)).encode()
        if got != want:
            ctx.fail("call styles send different requests", meta, got.decode("utf-8", "replace"), want.decode())
    other = ('<xsd:schema targetNamespace="urn:other" elementFormDefault="qualified"><xsd:complexType name="T">'
             '<xsd:sequence><xsd:element name="p" type="xsd:string"/><xsd:element name="q" type="xsd:int" minOccurs="0"/>'
             '</xsd:sequence></xsd:complexType></xsd:schema>')
    w = wsdlkit.wsdl_doc('<xsd:import namespace="urn:other"/><xsd:element name="f" type="o:T"/>', "f", None,
                         extra_schemas=other).replace(b"<wsdl:definitions ", b'<wsdl:definitions xmlns:o="urn:other" ', 1)
    cu, cr = wsdlkit.client(w, nosend=True), wsdlkit.client(w, nosend=True, unwrap=False)
    obj = cr.factory.create("{urn:other}T")
    obj.p, obj.q = "vp", 4
    shapes = {}
    for label, call in (("unwrapped", lambda: cu.service.f("vp", 4)), ("unwrapped keywords", lambda: cu.service.f(q=4, p="vp")),
                        ("dict", lambda: cr.service.f({"p": "vp", "q": 4})), ("factory object", lambda: cr.service.f(obj))):
        meta = {"stream": "foreign-typed-wrapper", "style": label}
        ctx.case(common.canon(meta), True)
        try:
            fn = xmlread.find1(xmlread.parse(wsdlkit.envelope_bytes(call())), "Body")["children"][0]
            shapes[label] = [list(fn["name"]), [[list(k["name"]), k.get("text")] for k in fn["children"]]]
        except Exception as e:
            shapes[label] = "%s: %s" % (type(e).__name__, e)
        exp = [[wsdlkit.TNS, "f"], [[["urn:other", "p"], "vp"], [["urn:other", "q"], "4"]]]
        if shapes[label] != exp:
            ctx.fail("call styles send different requests", meta, shapes[label], exp)


def wrapper_namespace_without_prefix(ctx):
    """The wrapper element of a schema no prefix is bound to (the message part binds one for its own reference): the
    dict / factory-object call with unwrapping disabled sends the request the keyword call sends - wrapper, members
    and header entry each in its namespace."""
    from harness.props import c01
    args = dict(order=dict(billing={"contact": {"ok": "yes", "code": 7}}, shipping={"contact": {"ok": True, "code": None}}),
                amount="2.5")
    ref = None
    for unwrap in (True, False):
        for how in ("dict", "object"):
            if unwrap and how == "object":
                continue
            meta = {"stream": "wrapper-namespace-without-prefix", "unwrap": unwrap, "how": how}
            ctx.case(common.canon(meta), True)
            try:
                c = wsdlkit.client(c01.NOPREFIX_WSDL, nosend=True, unwrap=unwrap)
                if unwrap:
                    env = wsdlkit.envelope_bytes(c.service.Op(**args))
                elif how == "dict":
                    env = wsdlkit.envelope_bytes(c.service.Op(dict(args)))
                else:
                    o = c.factory.create("{urn:np:a}Op")
                    o.order.billing.contact.ok, o.order.billing.contact.code = "yes", 7
                    o.order.shipping.contact.ok, o.order.shipping.contact.code = True, None
                    o.amount = "2.5"
                    env = wsdlkit.envelope_bytes(c.service.Op(o))
                got = xmlread.infoset(xmlread.parse(env))
                wrapper = xmlread.find1(xmlread.parse(env), "Body")["children"][0]["name"]
            except Exception as e:
                got, wrapper = "%s: %s" % (type(e).__name__, e), None
            if ref is None:
                ref = got
                if list(wrapper or []) != ["urn:np:a", "Op"]:
                    ctx.fail("call styles send different requests", meta, list(wrapper or []), ["urn:np:a", "Op"])
            elif got != ref:
                ctx.fail("%s with unwrap=False sends a different request" % ("dict" if how == "dict" else "factory object"),
                         meta, repr(got)[:600], repr(ref)[:600])


def lists_nones_and_wildcards(ctx):
    """(a) lists given for repeating and for non-repeating parameters, with None items inside: the dict form with
    unwrapping disabled sends what the keyword call sends; (b) an xsd:any among the wrapper's elements is a parameter
    (a positional slot) like the elements around it: values line up and the reported counts include it."""
    from suds.sax.element import Element

    def kids(env):
        fn = xmlread.find1(xmlread.find1(xmlread.parse(env), "Body"), "f")
        return [[k["name"][1], k.get("text")] for k in fn["children"]]
    schema = ('<xsd:element name="f"><xsd:complexType><xsd:sequence><xsd:element name="r" type="xsd:string" '
              'maxOccurs="unbounded"/><xsd:element name="o" type="xsd:string" minOccurs="0" maxOccurs="unbounded"/>'
              '<xsd:element name="single" type="xsd:string"/></xsd:sequence></xsd:complexType></xsd:element>')
    w = wsdlkit.wsdl_doc(schema, "f", None)
    cu, cr = wsdlkit.client(w, nosend=True), wsdlkit.client(w, nosend=True, unwrap=False)
    for args, want in ((dict(r=["a", None, "b"], o=["x", None], single="s"),
                        [["r", "a"], ["r", ""], ["r", "b"], ["o", "x"], ["single", "s"]]),
                       (dict(r=["a"], o=[], single=["1", "2"]), [["r", "a"], ["single", "1"], ["single", "2"]]),
                       (dict(r=[None], o=None, single="s"), [["r", ""], ["single", "s"]]),
                       (dict(r=("a", "b"), o=("x",), single="s"), [["r", "a"], ["r", "b"], ["o", "x"], ["single", "s"]])):
        meta = {"stream": "lists-and-nones", "args": repr(args)}
        ctx.case(common.canon(meta), True)
        got = []
        for label, fn in (("keywords", lambda: cu.service.f(**args)), ("dict", lambda: cr.service.f(dict(args)))):
            try:
                got.append(kids(wsdlkit.envelope_bytes(fn())))
            except Exception as e:
                got.append("%s: %s: %s" % (label, type(e).__name__, e))
        if got != [want, want]:
            ctx.fail("dict with unwrap=False sends a different request", meta, got, [want, want])
    schema2 = ('<xsd:element name="f"><xsd:complexType><xsd:sequence><xsd:element name="a" type="xsd:string"/><xsd:any/>'
               '<xsd:element name="b" type="xsd:string"/></xsd:sequence></xsd:complexType></xsd:element>')
    c = wsdlkit.client(wsdlkit.wsdl_doc(schema2, "f", None), nosend=True)
    raw = Element("extra", ns=("q", "urn:q"))
    raw.setText("r")
    meta = {"stream": "wildcard-parameter"}
    ctx.case(common.canon(meta), True)
    try:
        m = c.service.f.method
        got = [[None if d[0] is None else str(d[0]) for d in m.binding.input.param_defs(m)],
               kids(wsdlkit.envelope_bytes(c.service.f("1", raw, "3")))]
        try:
            c.service.f("1", raw, "3", "4")
            got.append("accepted")
        except TypeError as e:
            got.append(str(e))
    except Exception as e:
        got = "%s: %s" % (type(e).__name__, e)
    want = [["a", None, "b"], [["a", "1"], ["extra", "r"], ["b", "3"]], "f() takes 3 positional arguments but 4 were given"]
    if got != want:
        ctx.fail("client accepted or mis-reported a call the rule rejects", meta, got, want)


def named_wrapper_types(ctx):
    """The wrapper element may name its type (type="x:FT") instead of holding it: the parameters, what is rejected and
    the reported counts are those of the same content model written inside the element - a choice, an all group or a
    sequence at the top."""
    inner = {"choice": '<xsd:choice><xsd:element name="p1" type="xsd:string"/><xsd:element name="p2" type="xsd:string"/></xsd:choice>',
             "choice-of-sequences": '<xsd:choice><xsd:sequence><xsd:element name="p1" type="xsd:string"/><xsd:element name="p2" '
                                    'type="xsd:string"/></xsd:sequence><xsd:element name="p3" type="xsd:string"/></xsd:choice>',
             "sequence-with-choice": '<xsd:sequence><xsd:element name="p1" type="xsd:string"/><xsd:choice><xsd:element name="p2" '
                                     'type="xsd:string"/><xsd:element name="p3" type="xsd:string" minOccurs="0"/></xsd:choice></xsd:sequence>',
             "all": '<xsd:all><xsd:element name="p1" type="xsd:string"/><xsd:element name="p2" type="xsd:string" minOccurs="0"/></xsd:all>'}
    calls = [((), {}), (("a",), {}), (("a", "b"), {}), (("a", "b", "c"), {}), (("a", "b", "c", "d"), {}), ((), {"p1": "a", "p2": "b"}),
             ((), {"p2": "b"}), ((), {"p3": "c"}), (("a",), {"p3": "c"}), ((), {"p1": "a", "p3": "c"}), ((), {"zz": 1})]

    def outcomes(c):
        out = []
        for a, k in calls:
            try:
                env = wsdlkit.envelope_bytes(c.service.f(*a, **k))
                fn = xmlread.find1(xmlread.find1(xmlread.parse(env), "Body"), "f")
                out.append(["sent", [[x["name"][1], x.get("text")] for x in fn["children"]]])
            except TypeError as e:
                out.append(["TypeError", str(e)])
            except Exception as e:
                out.append([type(e).__name__, str(e)[:80]])
        return out
    for label, model in inner.items():
        anon = '<xsd:element name="f"><xsd:complexType>%s</xsd:complexType></xsd:element>' % model
        named = '<xsd:complexType name="FT">%s</xsd:complexType><xsd:element name="f" type="x:FT"/>' % model
        named_after = '<xsd:element name="f" type="x:FT"/><xsd:complexType name="FT">%s</xsd:complexType>' % model
        ref = outcomes(wsdlkit.client(wsdlkit.wsdl_doc(anon, "f", None), nosend=True))
        for rname, sc in (("named", named), ("named-declared-after", named_after)):
            meta = {"stream": "named-wrapper-types", "content": label, "rendering": rname}
            ctx.case(common.canon(meta), True)
            try:
                got = outcomes(wsdlkit.client(wsdlkit.wsdl_doc(sc, "f", None), nosend=True))
            except Exception as e:
                got = "%s: %s" % (type(e).__name__, e)
            if got != ref:
                bad = [i for i in range(len(calls)) if not isinstance(got, list) or got[i] != ref[i]]
                ctx.fail("client accepted or mis-reported a call the rule rejects", dict(meta, calls=[repr(calls[i]) for i in bad[:3]]),
                         got if not isinstance(got, list) else [got[i] for i in bad[:3]], [ref[i] for i in bad[:3]])


def rpc_and_ports(ctx):
    """(C) the two binding-level sites around the parser: rpc operations bind positional and keyword values alike
    (None included), and same-named operations of two ports are each bound against their own parameters."""
    import itertools
    # rpc/literal operation with three parts
    w = wsdlkit.wsdl_doc("", style="rpc", in_parts=[("a", "type", "xsd:string"), ("b", "type", "xsd:string"),
                                                    ("c", "type", "xsd:string")],
                         out_parts=[("return", "type", "xsd:string")])
    c = wsdlkit.client(w, nosend=True)
    def body(env):
        root = xmlread.parse(env)
        b = xmlread.find1(root, "Body", xmlread.ENV11)
        return [[k["name"][1], k.get("text", "")] for k in b["children"][0]["children"]]
    for vals in itertools.product([None, "x", ""], repeat=3):
        expected = [[n, v] for n, v in zip("abc", vals) if v is not None]
        names = "abc"
        for split in range(4):
            pos = list(vals[:split])
            kw = {names[i]: vals[i] for i in range(split, 3) if vals[i] is not None or ctx.rng.random() < 0.5}
            meta = {"rpc": True, "positional": pos, "keywords": kw}
            ctx.case(common.canon(meta), None in vals)
            ctx.dist["rpc calls"] += 1
            try:
                got = body(wsdlkit.envelope_bytes(c.service.f(*pos, **kw)))
            except Exception as e:
                got = "%s: %s" % (type(e).__name__, e)
            if got != expected:
                ctx.fail("an rpc call does not carry exactly the values passed, by position or by keyword", meta, got,
                         expected)
    # two ports of one service, same operation name, different inputs
    schema = ('<xsd:element name="W1"><xsd:complexType><xsd:sequence><xsd:element name="a" type="xsd:int"/>'
              '<xsd:element name="b" type="xsd:int"/></xsd:sequence></xsd:complexType></xsd:element>'
              '<xsd:element name="W2"><xsd:complexType><xsd:sequence><xsd:element name="x" type="xsd:string"/>'
              '</xsd:sequence></xsd:complexType></xsd:element>')
    wsdl = ('<?xml version="1.0"?><wsdl:definitions targetNamespace="urn:w" xmlns:wsdl="http://schemas.xmlsoap.org/wsdl/" '
            'xmlns:w="urn:w" xmlns:t="%s" xmlns:soap="http://schemas.xmlsoap.org/wsdl/soap/" '
            'xmlns:xsd="http://www.w3.org/2001/XMLSchema"><wsdl:types><xsd:schema targetNamespace="%s" '
            'elementFormDefault="qualified">%s</xsd:schema></wsdl:types>'
            '<wsdl:message name="m1"><wsdl:part name="parameters" element="t:W1"/></wsdl:message>'
            '<wsdl:message name="m2"><wsdl:part name="parameters" element="t:W2"/></wsdl:message>'
            '<wsdl:portType name="PT1"><wsdl:operation name="f"><wsdl:input message="w:m1"/></wsdl:operation></wsdl:portType>'
            '<wsdl:portType name="PT2"><wsdl:operation name="f"><wsdl:input message="w:m2"/></wsdl:operation></wsdl:portType>'
            % (wsdlkit.TNS, wsdlkit.TNS, schema))
    for n in (1, 2):
        wsdl += ('<wsdl:binding name="B%d" type="w:PT%d"><soap:binding style="document" '
                 'transport="http://schemas.xmlsoap.org/soap/http"/><wsdl:operation name="f"><soap:operation '
                 'soapAction="f%d"/><wsdl:input><soap:body use="literal"/></wsdl:input></wsdl:operation></wsdl:binding>'
                 % (n, n, n))
    wsdl += ('<wsdl:service name="S"><wsdl:port name="one" binding="w:B1"><soap:address location="http://x.invalid/1"/>'
             '</wsdl:port><wsdl:port name="two" binding="w:B2"><soap:address location="http://x.invalid/2"/></wsdl:port>'
             '</wsdl:service></wsdl:definitions>')
    for order in (("one", "two"), ("two", "one")):
        c = wsdlkit.client(wsdl.encode(), nosend=True)
        for port in order:
            good = ((1, 2), {}) if port == "one" else (("s",), {})
            bad = (("s",), {"x": "t"}) if port == "one" else ((1, 2), {})
            meta = {"ports": True, "order": list(order), "port": port}
            ctx.case(common.canon(meta), True)
            ctx.dist["same-named operations on two ports"] += 1
            try:
                env = wsdlkit.envelope_bytes(c.service[port].f(*good[0], **good[1]))
                root = xmlread.parse(env)
                b = xmlread.find1(root, "Body", xmlread.ENV11)
                got = [b["children"][0]["name"][1]] + [k["name"][1] for k in b["children"][0]["children"]]
            except Exception as e:
                got = "%s: %s" % (type(e).__name__, e)
            want = ["W1", "a", "b"] if port == "one" else ["W2", "x"]
            if got != want:
                ctx.fail("an operation is bound against another port's same-named operation", meta, got, want)
            try:
                c.service[port].f(*bad[0], **bad[1])
                ctx.fail("arguments of the other port's same-named operation were accepted", meta, "accepted",
                         "TypeError")
            except TypeError:
                pass
            except Exception as e:
                ctx.fail("wrong arguments raised something other than TypeError", meta,
                         "%s: %s" % (type(e).__name__, e), "TypeError")


def run(ctx):
    parser_correspondence(ctx)
    client_checks(ctx)
    rpc_and_ports(ctx)
    wrapper_namespace_without_prefix(ctx)
    lists_nones_and_wildcards(ctx)
    named_wrapper_types(ctx)
    empty_wrappers(ctx)
    repeating_and_foreign_typed_wrappers(ctx)


def widen(ctx):
    ctx.tier = "thorough"
    run(ctx)


def replay(ctx, payload):
    f = payload.get("failure") or {}
    inp = f.get("input") or {}
    if "forest" in inp:
        real, msg = real_parse(inp["forest"], inp["args"], [tuple(k) for k in inp["kwargs"]], inp["strict"])
        ans = ctx.driver.ask([{"op": "argp.both", "forest": inp["forest"], "args": inp["args"],
                               "kwargs": [{"k": k, "v": v} for k, v in inp["kwargs"]], "strict": inp["strict"]}])[0]
        return {"fails": ans is not None and real != ans["spec"], "real": real, "message": msg, "model": ans}
    if "schema" in inp:
        w = wsdlkit.wsdl_doc(inp["schema"], "f", None)
        c = wsdlkit.client(w, nosend=True)
        try:
            r = ("ok", wsdlkit.envelope_bytes(c.service.f(*inp["args"], **dict(map(tuple, inp["kwargs"])))).decode())
        except TypeError as e:
            r = ("err", str(e))
        return {"fails": True, "observed_now": r, "recorded": f}
    return {"fails": False, "note": "no failing input recorded", "payload": payload}


def witness(ctx, k):
    """D19 (fixed): dict with a None choice member vs positional call."""
    w = k["witness"]
    doc = wsdlkit.wsdl_doc(w["schema"], "f", None)
    c1 = wsdlkit.client(doc, nosend=True)
    c2 = wsdlkit.client(doc, nosend=True, unwrap=False)
    e1 = wsdlkit.envelope_bytes(c1.service.f(**w["values"]))
    e2 = wsdlkit.envelope_bytes(c2.service.f(dict(w["values"])))
    return not same_request(e1, e2)
