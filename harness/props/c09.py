"""C09 - Every reply is classified by status and content exactly one way."""
import io
import itertools

from harness import common, wsdlkit, xmlread

ID = "C09"
LEAN_MODULES = ["SudsModel.Props.C09"]
RULE = ("the full product: status in {None,200,201,202,204,301,400,401,403,404,500,502,503} x body class in {empty, "
        "normal, fault 1.1, fault 1.2, fault with detail, non-SOAP XML (html, an Envelope/Body/Fault in no or in a "
        "foreign namespace, a prolog and comment before the root), malformed (unclosed tag, white space only, plain "
        "text, truncated envelope, bytes that are no text in any encoding); a normal reply, a fault and a page in "
        "ISO-8859-1 with bytes that are not valid UTF-8} x faults x retxml x delivery path "
        "in {transport reply, TransportError with/without body, __inject, RequestContext.process_reply} x binding "
        "style {document wrapped, document bare, rpc}; enumerated exhaustively in both tiers; non-trivial = every cell "
        "except status 200 + normal body; distinct = distinct cells"
        ' ; UTF-16 bodies; the description of a non-200 reply reported as delivered on every path'
        ' ; an injection dict used for two calls'
        ' ; white space before / around a document; classification under debug logging'
        ' ; reply histories over one client'
        ' ; a Fault after other Body content'
        ' ; error pages are not the description')
ASSUMPTIONS = ["a reply returned by the transport carries no status for suds (counts as 200), as the property states"]
PARTIAL = []
TRUSTED = []

STATUSES = [None, 200, 201, 202, 204, 301, 400, 401, 403, 404, 500, 502, 503]
BODIES = ["empty", "normal", "fault11", "fault12", "faultDetail", "nonSoap", "malformed"]

ENV11 = xmlread.ENV11
ENV12 = xmlread.ENV12


# other spellings of a body class ("class#n"): the table goes by the class
SPELLINGS = {
    "malformed#1": b" ", "malformed#2": b"\r\n\t", "malformed#3": b"Service Unavailable",
    "malformed#4": ("<e:Envelope xmlns:e='%s'><e:Body>" % xmlread.ENV11).encode(),
    "nonSoap#1": b"<Envelope><Body><Fault><faultcode>x</faultcode><faultstring>boom</faultstring></Fault></Body></Envelope>",
    "nonSoap#2": (b"<e:Envelope xmlns:e='http://www.w3.org/2001/06/soap-envelope'><e:Body><e:Fault><faultcode>x</faultcode>"
                  b"<faultstring>boom</faultstring></e:Fault></e:Body></e:Envelope>"),
    "nonSoap#3": b"<?xml version='1.0'?><!-- moved --><error code='7'/>",
    "malformed#5": b"\xff\xfe\x00\x01 binary \x80 garbage",
    "nonSoap#4": b'<?xml version="1.0" encoding="ISO-8859-1"?><html><body>caf\xe9</body></html>',
    "normal#1": None, "fault11#1": None, "faultDetail#1": None,
    "normal#2": None, "fault11#2": None, "fault12#2": None,
    # white space before an XML declaration is not well-formed; around a document without one it is
    "malformed#6": None, "malformed#7": None, "normal#3": None, "fault11#3": None,
    # a Fault that is not the first thing in the Body (another element, a comment, before it) is the reply's Fault
    "fault11#4": None, "fault12#4": None,
}


LATIN1 = b'<?xml version="1.0" encoding="ISO-8859-1"?><!-- caf\xe9 \xfc -->'


def body_bytes(kind, style):
    if kind in SPELLINGS and SPELLINGS[kind] is not None:
        return SPELLINGS[kind]
    if kind in ("normal#1", "fault11#1", "faultDetail#1"):
        # the same document in another encoding, with bytes that are not valid UTF-8
        return LATIN1 + body_bytes(kind.split("#")[0], style)
    if kind in ("normal#2", "fault11#2", "fault12#2"):
        # ... and in UTF-16 (byte order mark + declaration): no ASCII substring of the document survives in the bytes
        return ('<?xml version="1.0" encoding="UTF-16"?>' + body_bytes(kind.split("#")[0], style).decode("utf-8")).encode("utf-16")
    if kind in ("malformed#6", "malformed#7"):
        return b"\n <?xml version='1.0' encoding='UTF-8'?>" + body_bytes("normal" if kind.endswith("6") else "fault11", style)
    if kind in ("fault11#4", "fault12#4"):
        base = body_bytes(kind.split("#")[0], style)
        return base.replace(b"<e:Body>", b'<e:Body><!-- trace --><t:trace xmlns:t="urn:trace">id-1</t:trace>', 1)
    if kind in ("normal#3", "fault11#3"):
        return b"\r\n\t " + body_bytes(kind.split("#")[0], style) + b"\n\n "
    if kind == "empty":
        return b""
    if kind == "malformed":
        return b"<e:Envelope xmlns:e='%s'><e:Body><unclosed></e:Body></e:Envelope>" % ENV11.encode()
    if kind == "nonSoap":
        return b"<html><body>It works!</body></html>"
    if kind == "normal":
        if style == "rpc":
            inner = '<m:fResponse xmlns:m="%s"><r>hello</r></m:fResponse>' % wsdlkit.TNS
        elif style == "bare":
            inner = '<r xmlns="%s">hello</r>' % wsdlkit.TNS
        else:
            inner = '<fResponse xmlns="%s"><r>hello</r></fResponse>' % wsdlkit.TNS
        return ('<e:Envelope xmlns:e="%s"><e:Body>%s</e:Body></e:Envelope>' % (ENV11, inner)).encode()
    if kind == "fault11":
        return ('<e:Envelope xmlns:e="%s"><e:Body><e:Fault><faultcode>e:Server</faultcode>'
                '<faultstring>boom</faultstring></e:Fault></e:Body></e:Envelope>' % ENV11).encode()
    if kind == "fault12":
        return ('<e:Envelope xmlns:e="%s"><e:Body><e:Fault><e:Code><e:Value>e:Receiver</e:Value></e:Code>'
                '<e:Reason><e:Text>boom12</e:Text></e:Reason></e:Fault></e:Body></e:Envelope>' % ENV12).encode()
    if kind == "faultDetail":
        return ('<e:Envelope xmlns:e="%s"><e:Body><e:Fault><faultcode>e:Client</faultcode>'
                '<faultstring>bad</faultstring><detail><why xmlns="urn:x">because</why></detail></e:Fault>'
                '</e:Body></e:Envelope>' % ENV11).encode()
    raise ValueError(kind)


def make_wsdl(style):
    if style == "wrapped":
        schema = ('<xsd:element name="f"><xsd:complexType><xsd:sequence><xsd:element name="a" type="xsd:string" '
                  'minOccurs="0"/></xsd:sequence></xsd:complexType></xsd:element>'
                  '<xsd:element name="fResponse"><xsd:complexType><xsd:sequence><xsd:element name="r" '
                  'type="xsd:string"/></xsd:sequence></xsd:complexType></xsd:element>')
        return wsdlkit.wsdl_doc(schema, "f", "fResponse")
    if style == "bare":
        schema = '<xsd:element name="a" type="xsd:string"/><xsd:element name="r" type="xsd:string"/>'
        return wsdlkit.wsdl_doc(schema, "a", "r")
    return wsdlkit.wsdl_doc("", style="rpc", in_parts=[("a", "type", "xsd:string")],
                            out_parts=[("r", "type", "xsd:string")])


def under_debug_logging(fn):
    import logging
    slog = logging.getLogger("suds")
    sink = logging.NullHandler()
    old_level, old_disable = slog.level, logging.root.manager.disable
    slog.addHandler(sink)
    slog.setLevel(logging.DEBUG)
    logging.disable(logging.NOTSET)
    try:
        return fn()
    finally:
        logging.disable(old_disable)
        slog.setLevel(old_level)
        slog.removeHandler(sink)


def outcome_of(fn, expect_value="hello"):
    """Run one invocation and canonicalise what happened."""
    import suds
    from xml.sax import SAXParseException
    try:
        r = fn()
    except suds.WebFault as e:
        f_, d_ = getattr(e, "fault", None), getattr(e, "document", None)
        ok = f_ is not None and d_ is not None and \
            (getattr(f_, "faultstring", None) in ("boom", "bad") or hasattr(f_, "Reason"))
        return ["raiseWebFault"] if ok else ["raiseWebFault", "payload-missing"]
    except SAXParseException:
        return ["raiseParse"]
    except AttributeError as e:
        return ["raiseDecode"]
    except Exception as e:
        a = e.args[0] if e.args else None
        if type(e) is Exception and isinstance(a, tuple) and len(a) == 2 and isinstance(a[0], int):
            return ["raiseHttp", a[0]]
        return ["raiseOther", type(e).__name__, str(e)[:80]]
    if r is None:
        return ["retNone"]
    if isinstance(r, bytes):
        return ["retRaw"]
    if isinstance(r, tuple) and len(r) == 2:
        code, v = r
        if code == 200:
            if v is None:
                return ["retPair200", False]
            return ["retPair200", True] if str(v) == expect_value else ["retPair200", "wrong-value", repr(v)[:60]]
        if code == 500 and not isinstance(v, str) and (hasattr(v, "faultstring") or hasattr(v, "Reason")):
            return ["retPair500Fault"]
        if isinstance(v, suds.WebFault):
            return ["retPair500WebFault"]
        return ["retPairHttp", code]
    if str(r) == expect_value:
        return ["retValue"]
    return ["retOther", repr(r)[:80]]


def run(ctx):
    import suds.transport
    cells = 0
    reqs, impls, metas = [], [], []
    for style in ("wrapped", "bare", "rpc"):
        w = make_wsdl(style)
        for faults, retxml in itertools.product((True, False), repeat=2):
            for body in BODIES + sorted(SPELLINGS):
                data = body_bytes(body, style)
                for status in STATUSES:
                    paths = []
                    # (c) __inject
                    c = wsdlkit.client(w, faults=faults, retxml=retxml)
                    inj = {"reply": data}
                    if status is not None:
                        inj["status"] = status
                    paths.append(("inject", lambda c=c, inj=inj: c.service.f("x", __inject=dict(inj))))
                    # (d) RequestContext.process_reply
                    c2 = wsdlkit.client(w, faults=faults, retxml=retxml, nosend=True)
                    rc = c2.service.f("x")
                    if status is None:
                        paths.append(("reqctx", lambda rc=rc, data=data: rc.process_reply(data)))
                    else:
                        paths.append(("reqctx", lambda rc=rc, data=data, status=status:
                                      rc.process_reply(data, status, "desc")))
                    # (a) transport reply (no status: counts as 200) - the Reply's own code must be ignored
                    if status is None or status == 200:
                        for code in (200, 500, 204):
                            tr = wsdlkit.RecordingTransport(reply=suds.transport.Reply(code, {}, data))
                            c3 = wsdlkit.client(w, faults=faults, retxml=retxml, transport=tr)
                            paths.append(("transport-reply/%d" % code, lambda c3=c3: c3.service.f("x")))
                    # (b) TransportError with / without body
                    if True:
                        te = suds.transport.TransportError("err", status, io.BytesIO(data))
                        tr = wsdlkit.RecordingTransport(reply=te)
                        c4 = wsdlkit.client(w, faults=faults, retxml=retxml, transport=tr)
                        paths.append(("transport-error", lambda c4=c4: c4.service.f("x")))
                        # ... and with debug logging switched on for suds: the classification does not depend on it
                        te = suds.transport.TransportError("err", status, io.BytesIO(data))
                        c6 = wsdlkit.client(w, faults=faults, retxml=retxml, transport=wsdlkit.RecordingTransport(reply=te))
                        paths.append(("transport-error/debug-logging", lambda c6=c6: under_debug_logging(lambda: c6.service.f("x"))))
                        if body == "empty":
                            te2 = suds.transport.TransportError("err", status, None)
                            tr2 = wsdlkit.RecordingTransport(reply=te2)
                            c5 = wsdlkit.client(w, faults=faults, retxml=retxml, transport=tr2)
                            paths.append(("transport-error/nofp", lambda c5=c5: c5.service.f("x")))
                    for pname, fn in paths:
                        got = outcome_of(fn)
                        meta = {"style": style, "faults": faults, "retxml": retxml, "body": body, "status": status,
                                "path": pname}
                        reqs.append({"op": "reply.process", "status": status, "body": body.split("#")[0], "faults": faults,
                                     "retxml": retxml})
                        impls.append(got)
                        metas.append(meta)
                        cells += 1
    answers = ctx.driver.ask(reqs)
    for meta, got, ans in zip(metas, impls, answers):
        ctx.case(common.canon(meta), not (meta["status"] in (None, 200) and meta["body"] == "normal"))
        ctx.dist["outcome=" + got[0]] += 1
        ctx.dist["path=" + meta["path"].split("/")[0]] += 1
        if ans is None:
            continue
        ctx.compare("process_reply", meta, got, ans["impl"])
        if got != ans["table"]:
            ctx.fail("outcome differs from the documented classification table", meta, got, ans["table"])
    descriptions(ctx)
    reply_histories(ctx)
    ctx.exhaustive = True
    ctx.sample(metas[0])
    ctx.sample(metas[len(metas) // 2])
    ctx.notes.append("%d cells enumerated (full product)" % cells)


def descriptions(ctx):
    """The status description reported for a non-200 reply is the one the delivery path was given - None when the
    caller of RequestContext.process_reply gave none, the empty string when an injected reply says so ('injected
    reply' only when it says nothing), the text of the TransportError - never one made up from the status."""
    import suds.transport
    w = make_wsdl("wrapped")
    for status in (201, 404, 503):
        for faults in (True, False):
            paths = []
            c2 = wsdlkit.client(w, faults=faults, nosend=True)
            rc = c2.service.f("x")
            paths.append(("reqctx/no-description", lambda rc=rc, status=status: rc.process_reply(b"", status), None))
            paths.append(("reqctx/empty-description", lambda rc=rc, status=status: rc.process_reply(b"", status, ""), ""))
            paths.append(("reqctx/description", lambda rc=rc, status=status: rc.process_reply(b"", status, "d e"), "d e"))
            c = wsdlkit.client(w, faults=faults)
            for label, inj, want in (("inject/no-description", {"reply": b"", "status": status}, "injected reply"),
                                     ("inject/empty-description", {"reply": b"", "status": status, "description": ""}, ""),
                                     ("inject/description", {"reply": b"", "status": status, "description": "x y"}, "x y")):
                paths.append((label, lambda c=c, inj=inj: c.service.f("x", __inject=dict(inj)), want))
            # the caller's injection dict is only read: used again for the next call it means the same
            shared = {"reply": b"", "status": status, "description": "again"}
            paths.append(("inject/same-dict/first", lambda c=c, shared=shared: c.service.f("x", __inject=shared), "again"))
            paths.append(("inject/same-dict/second", lambda c=c, shared=shared: c.service.f("x", __inject=shared), "again"))
            te = suds.transport.TransportError("reason text", status, io.BytesIO(b""))
            c4 = wsdlkit.client(w, faults=faults, transport=wsdlkit.RecordingTransport(reply=te))
            paths.append(("transport-error", lambda c4=c4: c4.service.f("x"), "reason text"))
            if status not in (200, 202, 204, 500):
                # (an error page that comes with the status is not the description)
                te2 = suds.transport.TransportError("reason text", status, io.BytesIO(b"<html><body>error page</body></html>"))
                c5 = wsdlkit.client(w, faults=faults, transport=wsdlkit.RecordingTransport(reply=te2))
                paths.append(("transport-error/with-body", lambda c5=c5: c5.service.f("x"), "reason text"))
            for pname, fn, want in paths:
                meta = {"stream": "descriptions", "status": status, "faults": faults, "path": pname}
                ctx.case(common.canon(meta), True)
                try:
                    r = fn()
                    got = ["returned", list(r) if isinstance(r, tuple) else repr(r)]
                except Exception as e:
                    a = e.args[0] if e.args else None
                    got = ["raised", list(a) if isinstance(a, tuple) else repr(e)]
                exp = ["raised" if faults else "returned", [status, want]]
                if got != exp:
                    ctx.fail("the status and description of a non-200 reply are not reported as they were delivered", meta,
                             got, exp)


def reply_histories(ctx):
    """What a reply is classified as does not depend on the replies the same client processed before: every reply of
    a sequence over ONE client (injected, from the transport, through one RequestContext) gets the outcome a fresh
    client gives for it."""
    import suds.transport
    rng = ctx.rng
    cells = [(b, st) for b in BODIES for st in (None, 200, 500, 404, 202)]
    for style in ("wrapped", "rpc"):
        w = make_wsdl(style)
        for faults, retxml in itertools.product((True, False), repeat=2):
            fresh = {}

            def expect(b, st):
                if (b, st) not in fresh:
                    inj = {"reply": body_bytes(b, style)}
                    if st is not None:
                        inj["status"] = st
                    c0 = wsdlkit.client(w, faults=faults, retxml=retxml)
                    fresh[(b, st)] = outcome_of(lambda: c0.service.f("x", __inject=inj))
                return fresh[(b, st)]
            for path in ("inject", "transport", "reqctx"):
                for _ in range(ctx.pick(3, 40)):
                    seq = [rng.choice(cells) for _n in range(rng.randint(2, 5))]
                    if rng.random() < 0.7:
                        # a reply with content, then an empty one
                        seq[0] = (rng.choice(["normal", "fault11", "faultDetail"]), rng.choice([None, 200, 500]))
                        seq[1] = ("empty", rng.choice([None, 200, 500, 202]))
                    queue = []
                    tr = wsdlkit.RecordingTransport(reply=lambda request: queue.pop(0))
                    c = wsdlkit.client(w, faults=faults, retxml=retxml, transport=tr)
                    cn = wsdlkit.client(w, faults=faults, retxml=retxml, nosend=True)
                    rc = cn.service.f("x")
                    for i, (b, st) in enumerate(seq):
                        data = body_bytes(b, style)
                        meta = {"stream": "reply-histories", "style": style, "faults": faults, "retxml": retxml, "path": path,
                                "history": [list(x) for x in seq[:i + 1]]}
                        ctx.case(common.canon(meta), True)
                        if path == "inject":
                            inj = {"reply": data}
                            if st is not None:
                                inj["status"] = st
                            got = outcome_of(lambda: c.service.f("x", __inject=inj))
                        elif path == "transport":
                            queue[:] = [suds.transport.Reply(200, {}, data) if st is None else
                                        suds.transport.TransportError("err", st, io.BytesIO(data))]
                            got = outcome_of(lambda: c.service.f("x"))
                        else:
                            got = outcome_of((lambda: rc.process_reply(data)) if st is None else
                                             (lambda: rc.process_reply(data, st, "desc")))
                        if got != expect(b, st):
                            ctx.fail("the outcome of a reply depends on the replies the client processed before", meta, got,
                                     expect(b, st))
                            break


def widen(ctx):
    run(ctx)


def replay(ctx, payload):
    f = payload.get("failure") or {}
    meta = f.get("input")
    if not meta:
        return {"fails": False, "payload": payload}
    w = make_wsdl(meta["style"])
    c = wsdlkit.client(w, faults=meta["faults"], retxml=meta["retxml"])
    inj = {"reply": body_bytes(meta["body"], meta["style"])}
    if meta["status"] is not None:
        inj["status"] = meta["status"]
    got = outcome_of(lambda: c.service.f("x", __inject=inj))
    ans = ctx.driver.ask([{"op": "reply.process", "status": meta["status"], "body": meta["body"].split("#")[0],
                           "faults": meta["faults"], "retxml": meta["retxml"]}])[0]
    return {"fails": ans is not None and got != ans["table"], "got(inject path)": got, "model": ans, "recorded": f}


def witness(ctx, k):
    import suds.transport
    meta = k["witness"]
    w = make_wsdl(meta["style"])
    te = suds.transport.TransportError("err", meta["status"], io.BytesIO(body_bytes(meta["body"], meta["style"])))
    c = wsdlkit.client(w, faults=meta["faults"], retxml=meta["retxml"], transport=wsdlkit.RecordingTransport(reply=te))
    got = outcome_of(lambda: c.service.f("x"))
    ans = ctx.driver.ask([{"op": "reply.process", "status": meta["status"], "body": meta["body"].split("#")[0],
                           "faults": meta["faults"], "retxml": meta["retxml"]}])[0]
    return ans is not None and got != ans["table"]
