"""C07 - The meaning of a schema does not depend on how it is written down."""
import itertools
import random

from harness import common, wsdlkit, xmlread
from harness import iface as IF, ifacecheck as K, schemamodel as SM

ID = "C07"
LEAN_MODULES = ["SudsModel.Props.C07"]
RULE = ("(a) generated interfaces x 1 canonical + k random renderings of each (prefix names, default namespace, "
        "shuffled declarations and WSDL sections, anonymous inline types, groups, attribute groups, element refs, "
        "schema blocks split per namespace incl. blocks with different elementFormDefault, WSDL target namespace): "
        "all clients must list the same operations and parameter names in order, build infoset-identical requests "
        "for the same arguments (each also matched against the reference translator), decode the same injected "
        "reply identically and build equal factory objects for every type that keeps its name; (b) dependency_sort "
        "against the Lean model and against its documented contract on all digraphs with <= 3 keys (every dependency "
        "subset incl. a dangling edge, every key order; 4 keys exhaustively and 5..7 keys sampled in the thorough "
        "tier); non-trivial = every rendering pair x operation / type, every graph with an edge; distinct = distinct "
        "of those"
        " ; plus: types looked up through the document's own prefix (ns0/ns1/ns2 bound to other namespaces included), named versus anonymous restricted simple types"
        ' ; a hand-written three-namespace interface in all 6 block orders x own namespace by prefix / default only; generated ns<N> prefixes under all block and type orders x sortNamespaces'
        " ; soap:body parts= in any order; an element's type named versus inline (dotted paths)"
        ' ; enumeration aliases with and without repeated values; autoblend in either block order'
        ' ; two blocks of one namespace (D48 shape); a reply typed by a name shared with a global element; attribute groups nested two deep in every order'
        ' ; two port types sharing an operation name under every order of sections; blocks that bind nothing to their own namespace'
        ' ; a group referred to twice; defaults of referenced elements; an element and a type sharing a name; the first schema node below outer prefix bindings'
        ' ; attributes inline or by group'
        ' ; untyped elements under odd bindings of xs; the split-namespace stream of C12')
ASSUMPTIONS = ["anonymous inline types are used only where the abstract interface never needs the type's name "
               "(not in rpc/encoded interfaces, not for derived or base types, not for operation parameters)",
               "decoded objects are compared without their class names when a rendering inlines types "
               "(an anonymous type's class is named after its element)"]
PARTIAL = [{"theorem": "rendering invariance as a theorem", "missing": "schema documents (XML text -> schema objects) are "
            "not modelled in Lean; invariance under the syntactic transformations is decided by the differential "
            "check on generated rendering pairs; the Lean part is the dependency ordering (all graphs)"}]
TRUSTED = ["iface.py renderer: that its renderings describe the same abstract interface"]
CLASSIFIERS = {}


# ------------------------------------------------------------------ dependency ordering

def reach(graph):
    keys = [k for k, _ in graph]
    ks = set(keys)
    r = {k: set(d for d in ds if d in ks) for k, ds in graph}
    changed = True
    while changed:
        changed = False
        for k in keys:
            new = set(r[k])
            for d in list(r[k]):
                new |= r[d]
            if new != r[k]:
                r[k] = new
                changed = True
    return r


def contract_violations(graph, order):
    """dependency_sort's documented contract: a permutation of the keys; if B depends (directly or not) on A
    and A does not depend on B, A comes first."""
    keys = [k for k, _ in graph]
    out = []
    if sorted(order) != sorted(keys):
        return ["not a permutation of the keys: %r" % (order,)]
    pos = {k: i for i, k in enumerate(order)}
    r = reach(graph)
    for b in keys:
        for a in r[b]:
            if b not in r[a] and pos[a] > pos[b]:
                out.append((a, b))
    return out


def c07_cycle_on_path(f, k):
    """D14: the violated pair's dependent reaches a cycle (acyclic trees are proved correct)."""
    g = (f.get("input") or {}).get("graph")
    if not g or f.get("kind") != "depsort":
        return False
    graph = [(e[0], e[1]) for e in g]
    r = reach(graph)
    bad = f.get("observed_pairs") or []
    return bool(bad) and all(any(x in r[x] for x in (r[b] | {b})) for a, b in bad)


CLASSIFIERS["c07_cycle_on_path"] = c07_cycle_on_path


def graphs(ctx):
    dang = 9
    for n in (1, 2, 3):
        nodes = list(range(n))
        subsets = [list(c) for k in range(0, n + 2) for c in itertools.combinations(nodes + [dang], k)]
        for deps in itertools.product(subsets, repeat=n):
            for order in itertools.permutations(nodes):
                yield [(k, list(deps[k])) for k in order]
                if n == 3 and any(len(d) > 1 for d in deps):
                    yield [(k, list(reversed(deps[k]))) for k in order]
    if not ctx.quick:
        nodes = list(range(4))
        subsets = [list(c) for k in range(0, 5) for c in itertools.combinations(nodes, k)]
        for deps in itertools.product(subsets, repeat=4):
            yield [(k, list(deps[k])) for k in nodes]
    rng = random.Random("graphs/%s" % ctx.seed)
    for _ in range(ctx.pick(3000, 200000)):
        n = rng.randint(4, 7)
        nodes = list(range(n))
        rng.shuffle(nodes)
        g = []
        for k in nodes:
            ds = [d for d in range(n) if rng.random() < rng.choice([0.15, 0.3, 0.5])]
            if rng.random() < 0.1:
                ds.append(dang)
            rng.shuffle(ds)
            g.append((k, ds))
        yield g


def depsort_part(ctx):
    from suds.xsd.depsort import dependency_sort
    reqs, metas = [], []
    for g in graphs(ctx):
        tree = dict((k, ds) for k, ds in g)
        real = [k for k, _ in dependency_sort(tree)]
        meta = {"graph": [[k, ds] for k, ds in g]}
        edges = sum(len(ds) for _, ds in g)
        ctx.case(common.canon(meta), edges > 0)
        r = reach(g)
        cyclic = any(k in r[k] for k in r)
        ctx.dist["depsort:keys=%d" % len(g)] += 1
        ctx.dist["depsort:" + ("cyclic" if cyclic else "acyclic")] += 1
        bad = contract_violations(g, real)
        if bad:
            ctx.fail("dependency_sort breaks its dependencies-first contract", meta, real,
                     "every dependency outside a common cycle first", kind="depsort",
                     observed_pairs=[list(p) for p in bad] if not isinstance(bad[0], str) else bad)
        reqs.append({"op": "depsort", "graph": [{"k": k, "deps": ds} for k, ds in g]})
        metas.append((meta, real))
    for ans, (meta, real) in zip(ctx.driver.ask(reqs), metas):
        ctx.compare("depsort-model-vs-suds", meta, real, ans)


# ------------------------------------------------------------------ renderings

def strip_classes(x):
    if isinstance(x, dict):
        return {k: strip_classes(v) for k, v in x.items() if k != "__class__"}
    if isinstance(x, list):
        return [strip_classes(v) for v in x]
    return x


def sd_fingerprint(client):
    out = []
    for sd in client.sd:
        for port, methods in sd.ports:
            for name, params in methods:
                out.append([name, [p[0] for p in params]])
    return out


def expected_sd(I):
    out = []
    for op in I["ops"]:
        if K.suds_unwraps(op):
            names = [m["name"] for m, _, _ in IF.members_of(I, op["in"][0]["type"][1])]
        else:
            names = [K.param_name(op, p) for p in op["in"]]
        out.append([op["name"], names])
    return out


def renderings_part(ctx):
    n_ifaces = ctx.pick(70, 2500)
    k_rend = ctx.pick(3, 6)
    for ident, I in K.family(ctx, n_ifaces, "C07"):
        K.shape_stats(ctx, I)
        clients = []
        for rident in ["canonical"] + ["r:%s:%d" % (ident, k) for k in range(k_rend)]:
            r = K.rendering_of(rident)
            docs = IF.render(r, I)
            for feat in ("default_ns_schema", "shuffle", "groups", "attr_groups", "element_refs", "split_blocks",
                         "mixed_block_forms", "wsdl_tns_is_ns0"):
                if getattr(r, feat):
                    ctx.dist["rendering:" + feat] += 1
            if r.inline:
                ctx.dist["rendering:anonymous types"] += 1
            try:
                clients.append((rident, r, K.make_client(docs, nosend=True), K.make_client(docs, nosend=False)))
            except Exception as e:
                ctx.fail("a rendering of the interface does not load", {"iface": ident, "rendering": rident},
                         "%s: %s" % (type(e).__name__, e), "a client", kind="load")
        if len(clients) < 2:
            continue
        base = clients[0]
        exp_sd = sorted(expected_sd(I))
        for rident, r, c, c2 in clients:
            meta = {"iface": ident, "rendering": rident, "what": "service-definition"}
            ctx.case(common.canon(meta), True)
            got = sorted(sd_fingerprint(c))
            if got != exp_sd:
                ctx.fail("operations / parameter names differ from the abstract interface", meta, got, exp_sd, kind="sd")
        for op in I["ops"]:
            args = K.args_of(ident, I, op, 0)
            outvals = K.outvals_of(ident, I, op, 0)
            nodes = IF.spec_reply_nodes(I, op, outvals)
            reply = IF.write_envelope(IF.Presentation(random.Random("c07:" + ident + op["name"])), nodes)
            ref_req = ref_reply = None
            for rident, r, c, c2 in clients:
                meta = {"iface": ident, "rendering": rident, "op": op["name"], "what": "request+reply"}
                ctx.case(common.canon(meta), rident != "canonical")
                ctx.dist["style=" + op["style"]] += 1
                try:
                    mism, env = K.check_request(c, I, op, args, "dict")
                    root, kids = K.body_children(env)
                    req = [SM.canon_node(k) for k in kids]
                except Exception as e:
                    ctx.fail("building the request raised under this rendering", meta,
                             "%s: %s" % (type(e).__name__, e), "the same request as every rendering", kind="request")
                    continue
                if mism:
                    ctx.fail("request differs from what the abstract interface prescribes", meta, mism[:5],
                             "the message the WSDL prescribes", kind="request")
                if ref_req is None:
                    ref_req = req
                elif req != ref_req:
                    ctx.fail("two renderings of one interface build different requests", meta, req, ref_req,
                             kind="request")
                try:
                    got = strip_classes(K.decode_reply(c2, op, reply))
                except Exception as e:
                    got = "%s: %s" % (type(e).__name__, e)
                if ref_reply is None:
                    ref_reply = got
                    exp = strip_classes(IF.spec_result(I, op, outvals))
                    if not K.same_value(got, exp):
                        ctx.fail("reply decoded differently from the abstract value", meta, repr(got)[:1000],
                                 repr(exp)[:1000], kind="reply")
                elif not K.same_value(got, ref_reply):
                    ctx.fail("two renderings of one interface decode one reply differently", meta, repr(got)[:1000],
                             repr(ref_reply)[:1000], kind="reply")
        if I.get("encoded"):
            continue
        for key in I["type_order"]:
            name = K.type_name(I, key)
            ref_obj = None
            for rident, r, c, c2 in clients:
                if key in r.inline:
                    continue
                meta = {"iface": ident, "rendering": rident, "type": name, "what": "factory"}
                ctx.case(common.canon(meta), rident != "canonical")
                try:
                    got = K.normal(c.factory.create(name))
                    got = strip_classes(got) if any(x[1].inline for x in clients) else got
                except Exception as e:
                    got = "%s: %s" % (type(e).__name__, e)
                if ref_obj is None:
                    ref_obj = got
                elif not same_object(got, ref_obj):
                    ctx.fail("two renderings of one interface build different factory objects", meta,
                             repr(got)[:1000], repr(ref_obj)[:1000], kind="factory")
                if r.root_prefixes or r.rng is None:
                    # the same type named through the prefix this rendering's <definitions> declares for its
                    # namespace - whatever that prefix is called (ns0, ns1, ... included)
                    pname = "%s:%s" % (r.prefixes[key[0]], key[1])
                    try:
                        got2 = K.normal(c.factory.create(pname))
                        got2 = strip_classes(got2) if any(x[1].inline for x in clients) else got2
                    except Exception as e:
                        got2 = "%s: %s" % (type(e).__name__, e)
                    ctx.case(common.canon(dict(meta, spelled=pname)), True)
                    if not same_object(got2, got):
                        ctx.fail("a type named through the document's own prefix is not the type of that namespace",
                                 dict(meta, spelled=pname), repr(got2)[:1000], repr(got)[:1000], kind="factory")


def same_object(a, b):
    from harness.props import c03
    return K.same_value(c03.reorder_attrs(a), c03.reorder_attrs(b))


def qualify_part(ctx):
    """qualified-reference resolution: the real `qualify` on generated scopes against the Lean model."""
    import suds.xsd
    from suds.sax.element import Element
    rng = random.Random("qualify/%s" % ctx.seed)
    uris = ["urn:a", "urn:b", "urn:c"]
    prefixes = ["p", "q", "tns", "xs"]
    reqs, metas = [], []
    for _ in range(ctx.pick(1500, 20000)):
        depth = rng.randint(1, 3)
        chain, node = [], None
        for d in range(depth):
            e = Element("n%d" % d)
            for p_ in rng.sample(prefixes, rng.randint(0, 2)):
                e.nsprefixes[p_] = rng.choice(uris)
            if rng.random() < 0.35:
                e.expns = rng.choice(uris)
            if node is not None:
                node.append(e)
            chain.append(e)
            node = e
        tns = rng.choice(uris + [None])
        ref = rng.choice(["T", "T", "%s:T" % rng.choice(prefixes), "%s:T" % rng.choice(prefixes), "xml:lang"])
        defns = node.defaultNamespace()
        if defns[1] is None:
            defns = (None, tns)
        try:
            real = list(suds.xsd.qualify(ref, node, defns))
        except Exception as e:
            real = {"err": "prefix not resolved"} if "not resolved" in str(e) else {"err": str(e)}
        meta = {"ref": ref, "tns": tns, "ctx": [{"nsp": [[k, v] for k, v in e.nsprefixes.items()], "expns": e.expns}
                                               for e in reversed(chain)]}
        ctx.case(common.canon(meta), ":" in ref or any(s_["expns"] for s_ in meta["ctx"]))
        ctx.dist["qualify:" + ("prefixed" if ":" in ref else "unprefixed")] += 1
        reqs.append(dict(meta, op="qualify"))
        metas.append((meta, real))
    for ans, (meta, real) in zip(ctx.driver.ask(reqs), metas):
        ctx.compare("qualify-model-vs-suds", meta, real, ans)


def consolidate_part(ctx):
    """SchemaCollection.add on two schema nodes of one namespace against the Lean consolidation model: explicit
    form attributes written, prefix table, and the form every local element is finally built with."""
    import suds.options
    from suds.sax.parser import Parser
    from suds.xsd.schema import Schema, SchemaCollection
    rng = random.Random("consolidate/%s" % ctx.seed)
    reqs, metas = [], []
    XS = "http://www.w3.org/2001/XMLSchema"

    def node(form, prefixes, locals_):
        decl = "".join(' xmlns:%s="%s"' % pu for pu in prefixes)
        fattr = "" if form is None else ' elementFormDefault="%s"' % form
        body = "".join('<xs:complexType name="T_%s"><xs:sequence><xs:element name="%s" type="xs:int"%s/></xs:sequence>'
                       '</xs:complexType>' % (n, n, "" if f is None else ' form="%s"' % f) for n, f in locals_)
        return '<xs:schema xmlns:xs="%s"%s targetNamespace="urn:c"%s>%s</xs:schema>' % (XS, decl, fattr, body)

    class FakeWsdl:
        pass
    for i in range(ctx.pick(300, 5000)):
        specs = []
        for which in (0, 1):
            form = rng.choice([None, "qualified", "unqualified"])
            prefixes = [(p, rng.choice(["urn:c", "urn:d", "urn:e"])) for p in rng.sample(["p", "q", "r"], rng.randint(0, 3))]
            locals_ = [("e%d%d" % (which, k), rng.choice([None, "qualified", "unqualified"]))
                       for k in range(rng.randint(1, 3))]
            specs.append((form, prefixes, locals_))
        options = suds.options.Options()
        coll = SchemaCollection(FakeWsdl())
        schemas = []
        # the first node may stand below an element (wsdl:definitions, wsdl:types) that binds prefixes of its own
        outer = [(p, rng.choice(["urn:c", "urn:d", "urn:e"])) for p in rng.sample(["p", "q", "r"], rng.randint(0, 3))] \
            if rng.random() < 0.5 else []
        for which, (form, prefixes, locals_) in enumerate(specs):
            text = node(form, prefixes, locals_)
            if which == 0 and outer:
                text = "<holder%s>%s</holder>" % ("".join(' xmlns:%s="%s"' % pu for pu in outer), text)
            root = Parser().parse(string=text.encode()).root()
            if which == 0 and outer:
                root = root.children[0]
            sch = Schema(root, "urn:x", options, {}, coll)
            coll.add(sch)
            schemas.append(sch)
        first = coll.children[0]
        first.build()
        real_prefixes = sorted([k, v] for k, v in first.root.nsprefixes.items() if k != "xs")
        real_locals = []
        for t in first.root.getChildren("complexType"):
            el = t.getChild("sequence").getChild("element")
            built = [c for c in first.children if c.name == t.get("name")]
            child = built[0].rawchildren[0].rawchildren[0] if built else None
            real_locals.append([el.get("name"), el.get("form"),
                                None if child is None else ("qualified" if child.form_qualified else "unqualified")])
        meta = {"first": {"form": specs[0][0] or "unqualified", "prefixes": [list(p) for p in specs[0][1]],
                          "locals": [{"name": n, "form": f} for n, f in specs[0][2]]},
                "second": {"form": specs[1][0] or "unqualified", "prefixes": [list(p) for p in specs[1][1]],
                           "locals": [{"name": n, "form": f} for n, f in specs[1][2]]},
                "outer": [list(p) for p in outer]}
        ctx.dist["consolidate:first node %s" % ("below bindings" if outer else "on its own")] += 1
        # the oracle for prefixes: whatever the first node's content could resolve before, it resolves to the same after
        for p_ in ("p", "q", "r"):
            before = dict(outer)
            before.update(dict(specs[0][1]))
            got_ = first.root.resolvePrefix(p_, None)
            if p_ in before and (got_ is None or got_[1] != before[p_]):
                ctx.fail("consolidation changed what a prefix means for the content of the first schema node", dict(meta, prefix=p_),
                         None if got_ is None else got_[1], before[p_], kind="consolidate")
        ctx.case(common.canon(meta), meta["first"]["form"] != meta["second"]["form"] or
                 any(p[0] in [q[0] for q in specs[0][1]] for p in specs[1][1]))
        ctx.dist["consolidate:" + ("forms differ" if meta["first"]["form"] != meta["second"]["form"] else "forms equal")] += 1
        # the oracle: every local element is built with the form its own node gave it
        for (form, prefixes, locals_) in specs:
            for n, f in locals_:
                want = f or form or "unqualified"
                got = [x[2] for x in real_locals if x[0] == n]
                if got != [want]:
                    ctx.fail("a local element of a consolidated schema node is built with another form than its own "
                             "node prescribes", dict(meta, element=n), got, [want], kind="consolidate")
        reqs.append(dict(meta, op="consolidate"))
        metas.append((meta, real_prefixes, [[x[0], x[2]] for x in real_locals]))
    for ans, (meta, real_prefixes, real_locals) in zip(ctx.driver.ask(reqs), metas):
        model = {"prefixes": sorted(ans["prefixes"]), "locals": [[x[0], x[2]] for x in ans["locals"]]} \
            if isinstance(ans, dict) else ans
        ctx.compare("consolidate-model-vs-suds", meta, {"prefixes": real_prefixes, "locals": real_locals}, model)


def simple_type_renderings(ctx):
    """Named versus anonymous SIMPLE types: an element whose type is a restriction of a builtin behaves the same
    whether the restriction is a named top-level simpleType or written inline, and as the builtin's rules say."""
    import datetime
    import decimal
    cases = [("boolean", True, "true", "false", False), ("int", 42, "42", "7", 7),
             ("decimal", decimal.Decimal("1.5"), "1.5", "2.25", decimal.Decimal("2.25")),
             ("date", datetime.date(2001, 2, 3), "2001-02-03", "1999-12-31", datetime.date(1999, 12, 31)),
             ("string", "s", "s", "t", "t")]
    results = {}
    for style in ("named", "anonymous", "named-twice"):
        decl, members = [], []
        for i, c in enumerate(cases):
            if style == "named-twice":
                # a named restriction of a named restriction of the builtin
                decl.append('<xsd:simpleType name="B%d"><xsd:restriction base="xsd:%s"/></xsd:simpleType>'
                            '<xsd:simpleType name="R%d"><xsd:restriction base="x:B%d"/></xsd:simpleType>' % (i, c[0], i, i))
                members.append('<xsd:element name="m%d" type="x:R%d"/>' % (i, i))
            elif style == "named":
                decl.append('<xsd:simpleType name="R%d"><xsd:restriction base="xsd:%s"/></xsd:simpleType>' % (i, c[0]))
                members.append('<xsd:element name="m%d" type="x:R%d"/>' % (i, i))
            else:
                members.append('<xsd:element name="m%d"><xsd:simpleType><xsd:restriction base="xsd:%s"/>'
                               '</xsd:simpleType></xsd:element>' % (i, c[0]))
        schema = ('%s<xsd:element name="f"><xsd:complexType><xsd:sequence>%s</xsd:sequence></xsd:complexType>'
                  '</xsd:element><xsd:element name="fResponse"><xsd:complexType><xsd:sequence>%s</xsd:sequence>'
                  '</xsd:complexType></xsd:element>' % ("".join(decl), "".join(members), "".join(members)))
        w = wsdlkit.wsdl_doc(schema, "f", "fResponse")
        meta = {"stream": "simple-type-renderings", "style": style}
        ctx.case(common.canon(meta), True)
        try:
            env = wsdlkit.envelope_bytes(wsdlkit.client(w, nosend=True).service.f(*[c[1] for c in cases]))
            froot = xmlread.find1(xmlread.find1(xmlread.parse(env), "Body"), "f")
            sent = [ch.get("text") for ch in froot["children"]]
            reply = ('<e:Envelope xmlns:e="%s"><e:Body><fResponse xmlns="%s">%s</fResponse></e:Body></e:Envelope>'
                     % (xmlread.ENV11, wsdlkit.TNS, "".join("<m%d>%s</m%d>" % (i, c[3], i) for i, c in enumerate(cases))))
            r = wsdlkit.client(w).service.f(*[c[1] for c in cases], __inject={"reply": reply.encode()})
            got = [getattr(r, "m%d" % i, None) for i in range(len(cases))]
            got = [str(g) if isinstance(g, str) else g for g in got]
        except Exception as e:
            ctx.fail("a schema with restricted simple types does not work", meta, repr(e), "request and reply")
            continue
        results[style] = (sent, [(type(g).__name__, g) for g in got])
        if sent != [c[2] for c in cases] or [(type(g).__name__, g) for g in got] != [(type(c[4]).__name__, c[4]) for c in cases]:
            ctx.fail("values of a restricted simple type are not written / read by the rules of the type it restricts",
                     meta, [sent, repr(got)], [[c[2] for c in cases], repr([c[4] for c in cases])])
    if len(results) == 3 and not (results["named"] == results["anonymous"] == results["named-twice"]):
        ctx.fail("a named and an anonymous rendering of the same simple type behave differently", {"stream":
                 "simple-type-renderings"}, repr(results["anonymous"]), repr(results["named"]))


_HW_WSDL = """<?xml version="1.0" encoding="UTF-8"?>
<wsdl:definitions targetNamespace="urn:w" xmlns:w="urn:w" xmlns:wsdl="http://schemas.xmlsoap.org/wsdl/"
    xmlns:soap="http://schemas.xmlsoap.org/wsdl/soap/"%(rootdecl)s>
  <wsdl:types>%(schemas)s</wsdl:types>
  <wsdl:message name="In" xmlns:q="urn:a"><wsdl:part name="parameters" element="q:Op"/></wsdl:message>
  <wsdl:message name="Out" xmlns:q="urn:a"><wsdl:part name="parameters" element="q:OpResponse"/></wsdl:message>
  <wsdl:portType name="PT">
    <wsdl:operation name="Op"><wsdl:input message="w:In"/><wsdl:output message="w:Out"/></wsdl:operation>
  </wsdl:portType>
  <wsdl:binding name="B" type="w:PT">
    <soap:binding style="document" transport="http://schemas.xmlsoap.org/soap/http"/>
    <wsdl:operation name="Op"><soap:operation soapAction="op"/>
      <wsdl:input><soap:body use="literal"/></wsdl:input><wsdl:output><soap:body use="literal"/></wsdl:output>
    </wsdl:operation>
  </wsdl:binding>
  <wsdl:service name="S"><wsdl:port name="P" binding="w:B"><soap:address location="http://localhost/x"/></wsdl:port></wsdl:service>
</wsdl:definitions>
"""


def _hw_blocks(style):
    """Three namespaces chained a -> b -> c: a's Op refers to b's global element `item` (anonymous type with
    unqualified locals) and to b's `x`, whose named type lives in c.  style: how each block names its own namespace -
    'prefixed' (xmlns:a=...), 'default' (xmlns=... only), 'none' (not at all)."""
    XS = "http://www.w3.org/2001/XMLSchema"

    def own(p, uri):
        if style == "none":
            # the block binds nothing to its own namespace: a reference to an element of its own binds a prefix on the spot
            return ("", 'me:own" xmlns:me="%s' % uri)
        return (' xmlns:%s="%s"' % (p, uri), p + ":") if style == "prefixed" else (' xmlns="%s"' % uri, "")
    da, qa = own("a", "urn:a")
    db, qb = own("b", "urn:b")
    dc, qc = own("c", "urn:c")
    A = ('<xs:schema targetNamespace="urn:a" xmlns:xs="%s"%s xmlns:pb="urn:b"><xs:import namespace="urn:b"/>'
         '<xs:element name="Op"><xs:complexType><xs:sequence><xs:element ref="pb:item"/><xs:element ref="pb:x"/>'
         '<xs:element name="note" type="xs:string"/><xs:element ref="%s"/>'
         '<xs:element name="i1" type="q1:Info" xmlns:q1="urn:b" minOccurs="0"/>'
         '<xs:element name="i2" type="q1:Info" xmlns:q1="urn:c" minOccurs="0"/></xs:sequence></xs:complexType></xs:element>'
         '<xs:element name="own"><xs:complexType><xs:sequence><xs:element name="k" type="xs:string"/></xs:sequence>'
         '</xs:complexType></xs:element>'
         '<xs:element name="OpResponse"><xs:complexType><xs:sequence><xs:element ref="pb:item" minOccurs="0"/>'
         '</xs:sequence></xs:complexType></xs:element></xs:schema>' % (XS, da, qa if style == "none" else qa + "own"))
    B = ('<xs:schema targetNamespace="urn:b" xmlns:xs="%s"%s xmlns:pc="urn:c"><xs:import namespace="urn:c"/>'
         '<xs:element name="item"><xs:complexType><xs:sequence><xs:element name="code" type="xs:string"/>'
         '<xs:element name="qty" type="xs:int"/></xs:sequence></xs:complexType></xs:element>'
         '<xs:element name="x" type="pc:T"/><xs:complexType name="Info"><xs:sequence><xs:element name="bi" '
         'type="xs:string"/></xs:sequence></xs:complexType></xs:schema>' % (XS, db))
    C = ('<xs:schema targetNamespace="urn:c" xmlns:xs="%s"%s elementFormDefault="qualified"><xs:complexType name="T">'
         '<xs:sequence><xs:element name="v" type="xs:int"/></xs:sequence></xs:complexType><xs:complexType name="Info">'
         '<xs:sequence><xs:element name="ci" type="xs:string"/></xs:sequence></xs:complexType></xs:schema>' % (XS, dc))
    return {"A": A, "B": B, "C": C}


def handwritten_renderings(ctx):
    """One small interface over three chained namespaces written in every order of its schema blocks, each block
    naming its own namespace by a prefix or only as the default namespace: the same requests, as the XSD rules
    prescribe (a referenced global element is in its namespace, its unqualified locals in none), and the same
    decoding of one reply."""
    want = [["urn:a", "Op", None, [
        ["urn:b", "item", None, [[None, "code", "A1", []], [None, "qty", "3", []]]],
        ["urn:b", "x", None, [["urn:c", "v", "7", []]]],
        [None, "note", "hello", []],
        ["urn:a", "own", None, [[None, "k", "kk", []]]],
        [None, "i1", None, [[None, "bi", "x", []]]], [None, "i2", None, [["urn:c", "ci", "y", []]]]]]]

    def canon(n):
        return [n["name"][0], n["name"][1], (n.get("text") or None) if not n["children"] else None,
                [canon(c) for c in n["children"]]]
    reply = ('<e:Envelope xmlns:e="%s"><e:Body><r:OpResponse xmlns:r="urn:a"><z:item xmlns:z="urn:b"><code>C</code>'
             '<qty>5</qty></z:item></r:OpResponse></e:Body></e:Envelope>' % xmlread.ENV11).encode()
    plain_ref = [None]
    for style in ("prefixed", "default", "none"):
        blocks = _hw_blocks(style)
        for order in itertools.permutations("ABC"):
            meta = {"stream": "handwritten-renderings", "own_namespace": style, "block_order": "".join(order)}
            ctx.case(common.canon(meta), True)
            w = (_HW_WSDL % {"rootdecl": "", "schemas": "".join(blocks[k] for k in order)}).encode()
            try:
                c = wsdlkit.client(w, nosend=True)
                env = wsdlkit.envelope_bytes(c.service.Op({"code": "A1", "qty": 3}, {"v": 7}, "hello", {"k": "kk"},
                                                              {"bi": "x"}, {"ci": "y"}))
                body = xmlread.find1(xmlread.parse(env), "Body")
                got = [canon(k) for k in body["children"]]
            except Exception as e:
                ctx.fail("a rendering of the interface does not load or cannot build its request", meta,
                         "%s: %s" % (type(e).__name__, e), want, kind="load")
                continue
            if got != want:
                ctx.fail("request differs from what the abstract interface prescribes", meta, got, want, kind="request")
            plain = []
            for nm in ("own", "item", "T", "Info", "Op"):
                try:
                    plain.append([nm, sorted(k for k, _v in c.factory.create(nm))])
                except Exception as e:
                    plain.append([nm, type(e).__name__])
            if plain_ref[0] is None:
                plain_ref[0] = plain
            elif plain != plain_ref[0]:
                ctx.fail("a name without a prefix means different things under different renderings", meta, plain,
                         plain_ref[0], kind="factory")
            try:
                r = wsdlkit.client(w).service.Op({"code": "A1", "qty": 3}, {"v": 7}, "hello", {"k": "kk"},
                                                  __inject={"reply": reply})
                dec = [str(getattr(r, "code", None)), getattr(r, "qty", None)]
            except Exception as e:
                dec = "%s: %s" % (type(e).__name__, e)
            if dec != ["C", 5]:
                ctx.fail("reply decoded differently from the abstract value", meta, repr(dec), repr(["C", 5]), kind="reply")


def parts_attribute_and_element_types(ctx):
    """(a) A soap:body that lists its parts (parts="...") - in any order, or all of them - means the same as one that
    does not: parameters and request children follow the order of the wsdl:message. (b) A global element whose type
    is a named complexType and the same element with the type written inline: the same members under the dotted
    path, the same request."""
    msgs = ('<wsdl:message name="fIn"><wsdl:part name="a" type="xsd:string"/><wsdl:part name="b" type="xsd:int"/>'
            '<wsdl:part name="c" type="xsd:string"/></wsdl:message>')
    results = {}
    for parts_attr in (None, "a b c", "c b a", "b a c"):
        w = wsdlkit.wsdl_doc("", style="rpc", in_parts=[("a", "type", "xsd:string"), ("b", "type", "xsd:int"),
                                                       ("c", "type", "xsd:string")]).decode()
        if parts_attr is not None:
            assert w.count("<wsdl:input><soap:body ") == 1
            w = w.replace("<wsdl:input><soap:body ", '<wsdl:input><soap:body parts="%s" ' % parts_attr, 1)
        meta = {"stream": "soap-body-parts", "parts": parts_attr}
        ctx.case(common.canon(meta), True)
        try:
            c = wsdlkit.client(w.encode(), nosend=True)
            sd = sd_fingerprint(c)
            env = wsdlkit.envelope_bytes(c.service.f("va", 7, "vc"))
            wrapper = xmlread.find1(xmlread.parse(env), "Body")["children"][0]
            results[parts_attr] = [sd, [[k["name"][1], k.get("text")] for k in wrapper["children"]]]
        except Exception as e:
            results[parts_attr] = "%s: %s" % (type(e).__name__, e)
        want = [[["f", ["a", "b", "c"]]], [["a", "va"], ["b", "7"], ["c", "vc"]]]
        if results[parts_attr] != want:
            ctx.fail("operations / parameter names differ from the abstract interface", meta, results[parts_attr], want,
                     kind="sd")
    inner = ('<xsd:sequence><xsd:element name="id" type="xsd:string"/><xsd:element name="item" type="x:Item" '
             'maxOccurs="unbounded"/></xsd:sequence>')
    # (a global element and the type it has share the name Item)
    item = ('<xsd:complexType name="Item"><xsd:sequence><xsd:element name="sku" type="xsd:string"/><xsd:element name="n" '
            'type="xsd:int"/></xsd:sequence></xsd:complexType><xsd:element name="Item" type="x:Item"/>')
    named = item + '<xsd:complexType name="OrderT">%s</xsd:complexType><xsd:element name="Order" type="x:OrderT"/>' % inner
    anon = item + '<xsd:element name="Order"><xsd:complexType>%s</xsd:complexType></xsd:element>' % inner
    got = {}
    for style, schema in (("named", named), ("anonymous", anon)):
        meta = {"stream": "element-type-renderings", "style": style}
        ctx.case(common.canon(meta), True)
        try:
            c = wsdlkit.client(wsdlkit.wsdl_doc(schema, "Order", None), nosend=True)
            reply = ('<e:Envelope xmlns:e="%s" xmlns:xsi="%s"><e:Body><t:Order xmlns:t="%s"><t:id>o9</t:id><t:item '
                     'xsi:type="t:Item"><t:sku>s9</t:sku><t:n>9</t:n></t:item></t:Order></e:Body></e:Envelope>'
                     % (xmlread.ENV11, xmlread.XSI, wsdlkit.TNS)).encode()
            paths = {}
            try:
                r = wsdlkit.client(wsdlkit.wsdl_doc(schema, "Order", "Order")).service.f("o1", [], __inject={"reply": reply})
                paths["reply"] = [str(r.id), [[str(i.sku), i.n] for i in r.item]]
            except Exception as e:
                paths["reply"] = type(e).__name__
            for nm in ("Order.item", "Order.item.sku", "Order"):
                try:
                    paths[nm] = strip_classes(K.normal(c.factory.create("{%s}%s" % (wsdlkit.TNS, nm))))
                except Exception as e:
                    paths[nm] = type(e).__name__
            env = wsdlkit.envelope_bytes(c.service.f("o1", [{"sku": "s", "n": 2}]))
            body = xmlread.find1(xmlread.parse(env), "Body")["children"][0]
            got[style] = [paths, xmlread.infoset({"name": body["name"], "attrs": {}, "children": body["children"],
                                                  "text": body.get("text")}) if False else
                          [[k["name"][1], k.get("text"), [[g["name"][1], g.get("text")] for g in k["children"]]]
                           for k in body["children"]]]
        except Exception as e:
            got[style] = "%s: %s" % (type(e).__name__, e)
    if got.get("named") != got.get("anonymous") or not isinstance(got.get("named"), list) or \
            got["named"][0].get("Order.item") in ("TypeNotFound", None) or got["named"][0].get("reply") != ["o9", [["s9", 9]]]:
        ctx.fail("two renderings of one interface build different factory objects", {"stream": "element-type-renderings"},
                 repr(got.get("named"))[:900], repr(got.get("anonymous"))[:900], kind="factory")


def enumeration_aliases_and_autoblend(ctx):
    """(a) a simple type that restricts an enumeration without repeating its values, and the same type written with
    the values repeated: the same object from the factory, alone and as a member type. (b) with autoblend, schema
    blocks that refer to one another's namespaces without an xsd:import - in either order of the blocks."""
    T = "{%s}" % wsdlkit.TNS
    color = ('<xsd:simpleType name="Color"><xsd:restriction base="xsd:string"><xsd:enumeration value="red"/>'
             '<xsd:enumeration value="green"/></xsd:restriction></xsd:simpleType>')
    alias = {"inherited": '<xsd:simpleType name="Shade"><xsd:restriction base="x:Color"/></xsd:simpleType>',
             "repeated": '<xsd:simpleType name="Shade"><xsd:restriction base="x:Color"><xsd:enumeration value="red"/>'
                         '<xsd:enumeration value="green"/></xsd:restriction></xsd:simpleType>'}
    got = {}
    for style, decl in alias.items():
        schema = (color + decl + '<xsd:element name="f"><xsd:complexType><xsd:sequence><xsd:element name="s" type="x:Shade"/>'
                  '</xsd:sequence></xsd:complexType></xsd:element>')
        meta = {"stream": "enumeration-alias", "style": style}
        ctx.case(common.canon(meta), True)
        try:
            c = wsdlkit.client(wsdlkit.wsdl_doc(schema, "f", None), nosend=True)
            o = c.factory.create(T + "Shade")
            env = wsdlkit.envelope_bytes(c.service.f("green"))
            got[style] = [sorted([k, str(v)] for k, v in o), xmlread.find1(xmlread.find1(xmlread.find1(xmlread.parse(env),
                          "Body"), "f"), "s").get("text")]
        except Exception as e:
            got[style] = "%s: %s" % (type(e).__name__, e)
    want = [[["green", "green"], ["red", "red"]], "green"]
    if got.get("inherited") != want or got.get("repeated") != want:
        ctx.fail("two renderings of one interface build different factory objects", {"stream": "enumeration-alias"},
                 repr(got.get("inherited")), repr(got.get("repeated")), kind="factory")
    XS = "http://www.w3.org/2001/XMLSchema"
    A = ('<xs:schema targetNamespace="urn:a" xmlns:xs="%s" xmlns:pb="urn:b" elementFormDefault="qualified"><xs:element name="Op">'
         '<xs:complexType><xs:sequence><xs:element name="item" type="pb:Item"/></xs:sequence></xs:complexType></xs:element>'
         '<xs:element name="OpResponse"><xs:complexType><xs:sequence/></xs:complexType></xs:element></xs:schema>' % XS)
    B = ('<xs:schema targetNamespace="urn:b" xmlns:xs="%s" xmlns:pa="urn:a" elementFormDefault="qualified"><xs:complexType name="Item">'
         '<xs:sequence><xs:element name="sku" type="xs:string"/></xs:sequence></xs:complexType></xs:schema>' % XS)
    reqs = {}
    for order in ("AB", "BA"):
        meta = {"stream": "autoblend", "block_order": order}
        ctx.case(common.canon(meta), True)
        w = (_HW_WSDL % {"rootdecl": "", "schemas": "".join({"A": A, "B": B}[k] for k in order)}).encode()
        try:
            c = wsdlkit.client(w, nosend=True, autoblend=True)
            env = wsdlkit.envelope_bytes(c.service.Op({"sku": "s1"}))
            op = xmlread.find1(xmlread.parse(env), "Body")["children"][0]
            reqs[order] = [list(op["name"]), [[list(k["name"]), [[list(g["name"]), g.get("text")] for g in k["children"]]]
                                              for k in op["children"]]]
        except Exception as e:
            reqs[order] = "%s: %s" % (type(e).__name__, e)
    want = [["urn:a", "Op"], [[["urn:a", "item"], [[["urn:b", "sku"], "s1"]]]]]
    if reqs.get("AB") != want or reqs.get("BA") != want:
        ctx.fail("two renderings of one interface build different requests", {"stream": "autoblend"}, reqs.get("BA"),
                 reqs.get("AB"), kind="request")


def several_blocks_of_one_namespace(ctx):
    """One namespace written as two schema blocks (the first unqualified, the second qualified, the document calling
    the namespace ns1): the global elements of the second block are global elements - a bare part is written
    qualified and a derived value from another namespace keeps the name of its type."""
    from harness.props import c01
    ctx.case(("several-blocks-one-namespace",), True)
    try:
        bad = c01.clobbered_type_prefix()
    except Exception as e:
        bad = "%s: %s" % (type(e).__name__, e)
    if bad is not None:
        ctx.fail("request differs from what the abstract interface prescribes", {"stream": "several-blocks-one-namespace"},
                 bad, ["urn:n1", "Der"], kind="request")


def nested_attribute_groups(ctx):
    """Attribute groups nested two deep, the type that refers to the outer one declared before, between or after the
    groups: the same attributes on the factory object under every order of declaration."""
    T = "{%s}" % wsdlkit.TNS
    decls = {"T": '<xsd:complexType name="T"><xsd:sequence><xsd:element name="e" type="xsd:string"/></xsd:sequence>'
                  '<xsd:attributeGroup ref="x:Outer"/></xsd:complexType>',
             "Outer": '<xsd:attributeGroup name="Outer"><xsd:attribute name="a2" type="xsd:string" default="2"/>'
                      '<xsd:attributeGroup ref="x:Inner"/></xsd:attributeGroup>',
             "Inner": '<xsd:attributeGroup name="Inner"><xsd:attribute name="a1" type="xsd:string" default="1"/>'
                      '<xsd:attribute name="a0" type="xsd:int" default="0"/></xsd:attributeGroup>'}
    el = '<xsd:element name="f"><xsd:complexType><xsd:sequence><xsd:element name="t" type="x:T"/></xsd:sequence></xsd:complexType></xsd:element>'
    ref = None
    for order in itertools.permutations(sorted(decls)):
        meta = {"stream": "nested-attribute-groups", "order": list(order)}
        ctx.case(common.canon(meta), True)
        try:
            c = wsdlkit.client(wsdlkit.wsdl_doc("".join(decls[k] for k in order) + el, "f", None), nosend=True)
            got = sorted([k, str(v)] for k, v in c.factory.create(T + "T"))
        except Exception as e:
            got = "%s: %s" % (type(e).__name__, e)
        want = [["_a0", "0"], ["_a1", "1"], ["_a2", "2"], ["e", "None"]]
        if got != want:
            ctx.fail("two renderings of one interface build different factory objects", meta, repr(got), repr(want),
                     kind="factory")


TWO_PT = """<?xml version="1.0" encoding="UTF-8"?>
<wsdl:definitions targetNamespace="urn:w" xmlns:w="urn:w" xmlns:t="urn:t" xmlns:xs="http://www.w3.org/2001/XMLSchema"
    xmlns:wsdl="http://schemas.xmlsoap.org/wsdl/" xmlns:soap="http://schemas.xmlsoap.org/wsdl/soap/">
  <wsdl:types><xs:schema targetNamespace="urn:t" elementFormDefault="qualified">
    <xs:element name="f"><xs:complexType><xs:sequence><xs:element name="a" type="xs:string"/>
      <xs:element name="n" type="xs:int"/></xs:sequence></xs:complexType></xs:element>
    <xs:element name="fResponse"><xs:complexType><xs:sequence><xs:element name="r" type="xs:int"/></xs:sequence>
      </xs:complexType></xs:element>
    <xs:element name="g" type="xs:string"/>
    <xs:element name="gResponse" type="xs:string"/>
  </xs:schema></wsdl:types>
  %(sections)s
</wsdl:definitions>"""


def two_port_types_with_one_operation_name(ctx):
    """Two port types that each have an operation "f" - one takes a wrapper element (wrapped parameters a, n; an int
    result), the other a bare string element - bound by two bindings and offered by two ports: the order in which the
    messages, port types, bindings and ports are written is surface; each port's f keeps its own signature, request
    and reply decoding."""
    rng = ctx.rng
    sec = {
        "m1": '<wsdl:message name="In1"><wsdl:part name="parameters" element="t:f"/></wsdl:message>'
              '<wsdl:message name="Out1"><wsdl:part name="parameters" element="t:fResponse"/></wsdl:message>',
        "m2": '<wsdl:message name="In2"><wsdl:part name="body" element="t:g"/></wsdl:message>'
              '<wsdl:message name="Out2"><wsdl:part name="body" element="t:gResponse"/></wsdl:message>',
        "pt1": '<wsdl:portType name="PT1"><wsdl:operation name="f"><wsdl:input message="w:In1"/>'
               '<wsdl:output message="w:Out1"/></wsdl:operation></wsdl:portType>',
        "pt2": '<wsdl:portType name="PT2"><wsdl:operation name="f"><wsdl:input message="w:In2"/>'
               '<wsdl:output message="w:Out2"/></wsdl:operation></wsdl:portType>',
    }
    for k in ("1", "2"):
        sec["b" + k] = ('<wsdl:binding name="B%s" type="w:PT%s"><soap:binding style="document" '
                        'transport="http://schemas.xmlsoap.org/soap/http"/><wsdl:operation name="f">'
                        '<soap:operation soapAction="urn:f%s"/><wsdl:input><soap:body use="literal"/></wsdl:input>'
                        '<wsdl:output><soap:body use="literal"/></wsdl:output></wsdl:operation></wsdl:binding>' % (k, k, k))
    port = {k: '<wsdl:port name="P%s" binding="w:B%s"><soap:address location="http://localhost/p%s"/></wsdl:port>' % (k, k, k)
            for k in ("1", "2")}
    replies = {"P1": '<fResponse xmlns="urn:t"><r>41</r></fResponse>', "P2": '<gResponse xmlns="urn:t">41</gResponse>'}
    want = {"P1": [["a", "n"], ["urn:t", "f", None, [["urn:t", "a", "v", []], ["urn:t", "n", "7", []]]], "urn:f1", "int:41"],
            "P2": [["g"], ["urn:t", "g", "v", []], "urn:f2", "Text:41"]}

    def canon_el(n):
        return [n.namespace()[1], n.name, None if n.getText() is None else str(n.getText()), [canon_el(c) for c in n.children]]
    orders = list(itertools.permutations(["m1", "m2", "pt1", "pt2", "b1", "b2"]))
    rng.shuffle(orders)
    picked = [("m1", "m2", "pt1", "pt2", "b1", "b2"), ("m2", "m1", "pt2", "pt1", "b2", "b1"),
              ("b2", "b1", "pt1", "pt2", "m1", "m2"), ("b1", "b2", "pt2", "pt1", "m2", "m1")] + orders[:ctx.pick(8, 80)]
    for order in picked:
        for ports in (("1", "2"), ("2", "1")):
            for call_first in ("P1", "P2"):
                meta = {"stream": "two-port-types", "order": list(order), "ports": list(ports), "called_first": call_first}
                ctx.case(common.canon(meta), True)
                w = (TWO_PT % {"sections": "".join(sec[k] for k in order) + '<wsdl:service name="S">%s</wsdl:service>'
                               % "".join(port[k] for k in ports)}).encode()
                got = {}
                try:
                    c = wsdlkit.client(w, nosend=True)
                    for pn in ([call_first] + [x for x in ("P1", "P2") if x != call_first]):
                        m = getattr(c.service[pn], "f")
                        sig = [str(a_[0]) for a_ in m.method.binding.input.param_defs(m.method)]
                        rc = m("v", 7) if pn == "P1" else m("v")
                        from suds.sax.parser import Parser
                        body = Parser().parse(string=rc.envelope).root().getChild("Body")
                        r = rc.process_reply(('<e:Envelope xmlns:e="%s"><e:Body>%s</e:Body></e:Envelope>'
                                              % (xmlread.ENV11, replies[pn])).encode())
                        got[pn] = [sig, canon_el(body.children[0]) if body.children else None,
                                   m.method.soap.action.strip('"'), "%s:%s" % (type(r).__name__, r)]
                except Exception as e:
                    got = "%s: %s" % (type(e).__name__, str(e)[:200])
                if got != want:
                    ctx.fail("two renderings of one interface build different clients", meta, repr(got), repr(want),
                             kind="request")
                    return


def groups_twice_ref_defaults_and_shared_names(ctx):
    """(a) a named group referred to twice in one content model reads like the group's content written out twice;
    (b) a reference to a global element that declares a default reads like the declaration written in place; (c) an
    element and a complex type that share a qualified name keep their meanings under every order of declaration."""
    T = "{%s}" % wsdlkit.TNS

    def req(c, *a):
        env = wsdlkit.envelope_bytes(c.service.f(*a))
        fn = xmlread.find1(xmlread.find1(xmlread.parse(env), "Body"), "f")
        return [[k["name"][1], k.get("text")] for k in fn["children"]]
    grp = ('<xsd:group name="P"><xsd:sequence><xsd:element name="lat" type="xsd:int"/><xsd:element name="lon" '
           'type="xsd:int"/></xsd:sequence></xsd:group>')
    inl = '<xsd:sequence><xsd:element name="lat" type="xsd:int"/><xsd:element name="lon" type="xsd:int"/></xsd:sequence>'
    shape = ('<xsd:element name="f"><xsd:complexType><xsd:sequence>%s<xsd:element name="via" type="xsd:string"/>%s'
             '</xsd:sequence></xsd:complexType></xsd:element>')
    renderings = {"group-first": grp + shape % ('<xsd:group ref="x:P"/>', '<xsd:group ref="x:P"/>'),
                  "group-last": shape % ('<xsd:group ref="x:P"/>', '<xsd:group ref="x:P"/>') + grp,
                  "group-then-inline": grp + shape % ('<xsd:group ref="x:P"/>', inl), "inline": shape % (inl, inl)}
    want = [["lat", "lon", "via", "lat", "lon"], [["lat", "1"], ["lon", "2"], ["via", "v"], ["lat", "3"], ["lon", "4"]]]
    for rname, sc in renderings.items():
        meta = {"stream": "group-referred-to-twice", "rendering": rname}
        ctx.case(common.canon(meta), True)
        try:
            c = wsdlkit.client(wsdlkit.wsdl_doc(sc, "f", None), nosend=True)
            m = c.service.f.method
            got = [[str(d[0]) for d in m.binding.input.param_defs(m)], req(c, 1, 2, "v", 3, 4)]
        except Exception as e:
            got = "%s: %s" % (type(e).__name__, e)
        if got != want:
            ctx.fail("two renderings of one interface build different clients", meta, repr(got), repr(want), kind="request")
    rest = '<xsd:element name="e" type="xsd:string"/></xsd:sequence></xsd:complexType></xsd:element>'
    renderings = {"ref": '<xsd:element name="d" type="xsd:string" default="dflt"/><xsd:element name="f"><xsd:complexType>'
                         '<xsd:sequence><xsd:element ref="x:d"/>' + rest,
                  "ref-declared-after": '<xsd:element name="f"><xsd:complexType><xsd:sequence><xsd:element ref="x:d"/>' + rest
                                        + '<xsd:element name="d" type="xsd:string" default="dflt"/>',
                  "in-place": '<xsd:element name="f"><xsd:complexType><xsd:sequence><xsd:element name="d" type="xsd:string" '
                              'default="dflt"/>' + rest}
    want = [[["d", "dflt"], ["e", "x"]], [["d", "given"], ["e", "x"]]]
    for rname, sc in renderings.items():
        meta = {"stream": "referenced-default", "rendering": rname}
        ctx.case(common.canon(meta), True)
        try:
            c = wsdlkit.client(wsdlkit.wsdl_doc(sc, "f", None), nosend=True)
            got = [req(c, None, "x"), req(c, "given", "x")]
        except Exception as e:
            got = "%s: %s" % (type(e).__name__, e)
        if got != want:
            ctx.fail("two renderings of one interface build different clients", meta, repr(got), repr(want), kind="request")
    el = ('<xsd:element name="Item"><xsd:complexType><xsd:sequence><xsd:element name="a" type="xsd:string"/></xsd:sequence>'
          '</xsd:complexType></xsd:element>')
    ty = '<xsd:complexType name="Item"><xsd:sequence><xsd:element name="b" type="xsd:string"/></xsd:sequence></xsd:complexType>'
    f = ('<xsd:element name="f"><xsd:complexType><xsd:sequence><xsd:element name="i" type="x:Item"/><xsd:element ref="x:Item"/>'
         '</xsd:sequence></xsd:complexType></xsd:element>')
    for order in itertools.permutations([("element", el), ("type", ty), ("user", f)]):
        meta = {"stream": "element-and-type-share-a-name", "order": [o[0] for o in order]}
        ctx.case(common.canon(meta), True)
        try:
            c = wsdlkit.client(wsdlkit.wsdl_doc("".join(o[1] for o in order), "f", None), nosend=True)
            got = [[k for k, _v in c.factory.create(T + "Item")], [[k for k, _v in v] for _k, v in c.factory.create(T + "f")]]
        except Exception as e:
            got = "%s: %s" % (type(e).__name__, e)
        if got != [["a"], [["b"], ["a"]]]:
            ctx.fail("two renderings of one interface build different factory objects", meta, repr(got),
                     repr([["a"], [["b"], ["a"]]]), kind="factory")


def attributes_inline_or_by_group(ctx):
    """Attributes declared inline on a type or factored into an attributeGroup it refers to: the type, a type derived
    from it by extension, a simpleContent type and a simpleContent type derived from that one present the same members
    in the same order under both renderings."""
    T = "{%s}" % wsdlkit.TNS
    attrs = ('<xsd:attribute name="a" type="xsd:string"/><xsd:attribute name="b" type="xsd:string"/><xsd:attribute '
             'name="c" type="xsd:int"/>')
    grp = '<xsd:attributeGroup name="G">%s</xsd:attributeGroup>' % attrs
    f = ('<xsd:element name="f"><xsd:complexType><xsd:sequence><xsd:element name="d" type="x:D"/><xsd:element name="m" '
         'type="x:M"/><xsd:element name="m2" type="x:M2"/></xsd:sequence></xsd:complexType></xsd:element>')

    def schema(use_group, group_last):
        at = '<xsd:attributeGroup ref="x:G"/>' if use_group else attrs
        body = ('<xsd:complexType name="B"><xsd:sequence><xsd:element name="e" type="xsd:string"/></xsd:sequence>%s'
                '</xsd:complexType><xsd:complexType name="D"><xsd:complexContent><xsd:extension base="x:B"><xsd:sequence>'
                '<xsd:element name="e2" type="xsd:string"/></xsd:sequence><xsd:attribute name="z" type="xsd:string"/>'
                '</xsd:extension></xsd:complexContent></xsd:complexType><xsd:complexType name="M"><xsd:simpleContent>'
                '<xsd:extension base="xsd:decimal">%s</xsd:extension></xsd:simpleContent></xsd:complexType>'
                '<xsd:complexType name="M2"><xsd:simpleContent><xsd:extension base="x:M"/></xsd:simpleContent>'
                '</xsd:complexType>' % (at, at)) + f
        if not use_group:
            return body
        return body + grp if group_last else grp + body
    want = [["e", "_a", "_b", "_c"], ["e", "_a", "_b", "_c", "e2", "_z"], ["value", "_a", "_b", "_c"],
            ["value", "_a", "_b", "_c"]]
    for rname, sc in (("inline", schema(False, False)), ("group-first", schema(True, False)), ("group-last", schema(True, True))):
        meta = {"stream": "attributes-inline-or-by-group", "rendering": rname}
        ctx.case(common.canon(meta), True)
        try:
            c = wsdlkit.client(wsdlkit.wsdl_doc(sc, "f", None), nosend=True)
            got = [[str(k) for k, _v in c.factory.create(T + n)] for n in ("B", "D", "M", "M2")]
        except Exception as e:
            got = "%s: %s" % (type(e).__name__, e)
        if got != want:
            ctx.fail("two renderings of one interface build different factory objects", meta, repr(got), repr(want),
                     kind="factory")


def untyped_elements_under_odd_prefix_bindings(ctx):
    """An element declared without a type (anyType by default) means the same whatever the document binds the
    customary prefixes xs / xsd to - also when `xs` names the target namespace and XML Schema goes by another prefix."""
    schema = ('<xsd:element name="f"><xsd:complexType><xsd:sequence><xsd:element name="u"/><xsd:element name="s" '
              'type="xsd:string"/></xsd:sequence></xsd:complexType></xsd:element>')
    base = wsdlkit.wsdl_doc(schema, "f", None).decode()
    renderings = {"plain": base,
                  "xs-is-target-namespace": base.replace("<wsdl:definitions ", '<wsdl:definitions xmlns:xs="%s" ' % wsdlkit.TNS, 1),
                  "xs-is-something-else": base.replace("<wsdl:definitions ", '<wsdl:definitions xmlns:xs="urn:other" ', 1),
                  "xs-on-the-schema": base.replace("<xsd:schema ", '<xsd:schema xmlns:xs="%s" ' % wsdlkit.TNS, 1)}
    want = [["u", "s"], [["u", "v"], ["s", "w"]]]
    for rname, w in renderings.items():
        meta = {"stream": "untyped-elements-odd-prefixes", "rendering": rname}
        ctx.case(common.canon(meta), True)
        try:
            c = wsdlkit.client(w.encode(), nosend=True)
            m = c.service.f.method
            env = wsdlkit.envelope_bytes(c.service.f("v", "w"))
            fn = xmlread.find1(xmlread.find1(xmlread.parse(env), "Body"), "f")
            got = [[str(d[0]) for d in m.binding.input.param_defs(m)], [[k["name"][1], k.get("text")] for k in fn["children"]]]
        except Exception as e:
            got = "%s: %s" % (type(e).__name__, e)
        if got != want:
            ctx.fail("two renderings of one interface build different clients", meta, repr(got), repr(want), kind="request")
    from harness.props import c12
    c12.store_and_split_namespace(ctx)        # (one namespace in two documents, joined by xsd:include or an own-namespace xsd:import)


def prefix_numbering(ctx):
    """The generated prefixes (ns0, ns1, ...: what str(client) shows and factory.create('nsN:Type') understands) do not
    depend on the order in which a WSDL declares its schema blocks and types - with namespace sorting on or off."""
    XS = "http://www.w3.org/2001/XMLSchema"
    names = {"urn:p1": ["Zulu", "Mike"], "urn:p2": ["Alpha", "Yankee"], "urn:p3": ["Bravo"]}

    def block(uri, order):
        return ('<xs:schema targetNamespace="%s" xmlns:xs="%s">%s</xs:schema>' % (uri, XS, "".join(
            '<xs:complexType name="%s"><xs:sequence><xs:element name="a" type="xs:string"/></xs:sequence>'
            '</xs:complexType>' % n for n in order)))
    main = ('<xs:schema targetNamespace="urn:a" xmlns:xs="%s"><xs:element name="Op"><xs:complexType><xs:sequence>'
            '<xs:element name="s" type="xs:string"/></xs:sequence></xs:complexType></xs:element>'
            '<xs:element name="OpResponse"><xs:complexType><xs:sequence/></xs:complexType></xs:element></xs:schema>' % XS)
    for sortns in (True, False):
        ref = None
        for perm in itertools.permutations(sorted(names)):
            for rev in (False, True):
                blocks = [main] + [block(u, list(reversed(names[u])) if rev else names[u]) for u in perm]
                meta = {"stream": "prefix-numbering", "sortNamespaces": sortns, "block_order": list(perm), "reversed": rev}
                ctx.case(common.canon(meta), True)
                w = (_HW_WSDL % {"rootdecl": "", "schemas": "".join(blocks)}).encode()
                try:
                    c = wsdlkit.client(w, nosend=True, sortNamespaces=sortns)
                    got = sorted([p, u] for p, u in c.sd[0].prefixes)
                    made = {}
                    for p, u in c.sd[0].prefixes:
                        for n in names.get(u, []):
                            made[n] = type(c.factory.create("%s:%s" % (p, n))).__name__
                except Exception as e:
                    got, made = "%s: %s" % (type(e).__name__, e), None
                if ref is None:
                    ref = (got, made)
                    if made != {n: n for ns_ in names.values() for n in ns_}:
                        ctx.fail("a generated prefix does not name its namespace's types", meta, repr(made), "every type",
                                 kind="factory")
                elif (got, made) != ref:
                    ctx.fail("the generated namespace prefixes depend on the order of declarations", meta,
                             repr((got, made)), repr(ref), kind="sd")


def run(ctx):
    depsort_part(ctx)
    qualify_part(ctx)
    consolidate_part(ctx)
    renderings_part(ctx)
    simple_type_renderings(ctx)
    handwritten_renderings(ctx)
    prefix_numbering(ctx)
    parts_attribute_and_element_types(ctx)
    enumeration_aliases_and_autoblend(ctx)
    several_blocks_of_one_namespace(ctx)
    nested_attribute_groups(ctx)
    two_port_types_with_one_operation_name(ctx)
    groups_twice_ref_defaults_and_shared_names(ctx)
    attributes_inline_or_by_group(ctx)
    untyped_elements_under_odd_prefix_bindings(ctx)
    ctx.sample({"graph": [[1, [2, 3]], [2, [1]], [3, []]], "note": "D14 witness graph"})


def widen(ctx):
    ctx.tier = "thorough"
    run(ctx)


def witness(ctx, k):
    kind = (k.get("witness") or {}).get("kind")
    if kind == "cycle-entry":
        from suds.xsd.depsort import dependency_sort
        order = [x for x, _ in dependency_sort({1: [2, 3], 2: [1], 3: []})]
        return order.index(2) < order.index(3)
    if kind == "ref-nillable":
        schema = ('<xsd:element name="g" type="xsd:int" nillable="true"/><xsd:element name="E"><xsd:complexType>'
                  '<xsd:sequence><xsd:element ref="x:g"/></xsd:sequence></xsd:complexType></xsd:element>')
        c = wsdlkit.client(wsdlkit.wsdl_doc(schema, input="E"), nosend=True)
        return b"nil" not in wsdlkit.envelope_bytes(c.service.f(None))
    if kind == "anonymous-optional":
        inner = ('<xsd:sequence><xsd:element name="req" type="xsd:string" nillable="true"/><xsd:element name="r2" '
                 'type="xsd:string"/></xsd:sequence>')
        schema = ('<xsd:element name="E"><xsd:complexType><xsd:sequence><xsd:element name="opt" minOccurs="0">'
                  '<xsd:complexType>%s</xsd:complexType></xsd:element></xsd:sequence></xsd:complexType></xsd:element>'
                  % inner)
        c = wsdlkit.client(wsdlkit.wsdl_doc(schema, input="E"), nosend=True)
        return b"nil" not in wsdlkit.envelope_bytes(c.service.f({"req": None, "r2": "x"}))
    if kind == "inherited-prefix-clash":
        # D54: the first block of a namespace inherits `pa` from wsdl:definitions, a later block of the same namespace
        # binds `pa` to something else
        blocks = ('<xsd:schema targetNamespace="%s" elementFormDefault="qualified"><xsd:import namespace="urn:o"/>'
                  '<xsd:element name="f"><xsd:complexType><xsd:sequence><xsd:element ref="pa:item"/></xsd:sequence>'
                  '</xsd:complexType></xsd:element></xsd:schema><xsd:schema targetNamespace="%s" xmlns:pa="%s" '
                  'elementFormDefault="qualified"><xsd:complexType name="T"><xsd:sequence><xsd:element name="v" '
                  'type="xsd:int"/></xsd:sequence></xsd:complexType><xsd:element name="g" type="pa:T"/></xsd:schema>'
                  '<xsd:schema targetNamespace="urn:o" elementFormDefault="qualified"><xsd:element name="item" '
                  'type="xsd:string"/></xsd:schema>' % (wsdlkit.TNS, wsdlkit.TNS, wsdlkit.TNS))
        w = wsdlkit.wsdl_doc("", "f", None).decode()
        w = w[:w.index("<wsdl:types>")] + "<wsdl:types>" + blocks + w[w.index("</wsdl:types>"):]
        w = w.replace("<wsdl:definitions ", '<wsdl:definitions xmlns:pa="urn:o" ', 1)
        try:
            c = wsdlkit.client(w.encode(), nosend=True)
            body = xmlread.find1(xmlread.parse(wsdlkit.envelope_bytes(c.service.f("x"))), "Body")
            return [k["name"] for k in body["children"][0]["children"]] != [("urn:o", "item")]
        except Exception:
            return True
    if kind == "block-prefix-clash":
        tns = wsdlkit.TNS
        other = ('<xsd:schema targetNamespace="urn:o" elementFormDefault="qualified"><xsd:complexType name="O">'
                 '<xsd:sequence><xsd:element name="o" type="xsd:int"/></xsd:sequence></xsd:complexType></xsd:schema>')
        blk2 = ('<xsd:schema targetNamespace="%s" elementFormDefault="qualified" xmlns:p="urn:o"><xsd:import '
                'namespace="urn:o"/><xsd:element name="E2" type="p:O"/></xsd:schema>' % tns)
        w = wsdlkit.wsdl_doc('<xsd:complexType name="A"><xsd:sequence><xsd:element name="a" type="xsd:int"/>'
                             '</xsd:sequence></xsd:complexType><xsd:element name="E1" type="p:A"/>',
                             input=["E1", "E2"], extra_schemas=blk2 + other)
        w = w.replace(b'<xsd:schema targetNamespace="%s" elementFormDefault="qualified">' % tns.encode(),
                      b'<xsd:schema targetNamespace="%s" elementFormDefault="qualified" xmlns:p="%s">'
                      % (tns.encode(), tns.encode()), 1)
        try:
            c = wsdlkit.client(w, nosend=True)
            c.service.f({"a": 1}, {"o": 2})
            return False
        except Exception:
            return True
    if kind == "tns-without-prefix":
        w = (b'<?xml version="1.0"?><wsdl:definitions targetNamespace="urn:w" '
             b'xmlns:wsdl="http://schemas.xmlsoap.org/wsdl/" xmlns:w="urn:w" '
             b'xmlns:soap="http://schemas.xmlsoap.org/wsdl/soap/"><wsdl:types><xsd:schema '
             b'xmlns:xsd="http://www.w3.org/2001/XMLSchema" targetNamespace="urn:t" elementFormDefault="unqualified">'
             b'<xsd:element name="Req"><xsd:complexType><xsd:sequence><xsd:element name="item" type="xsd:string"/>'
             b'</xsd:sequence></xsd:complexType></xsd:element></xsd:schema></wsdl:types><wsdl:message name="fIn">'
             b'<wsdl:part name="parameters" element="q:Req" xmlns:q="urn:t"/></wsdl:message><wsdl:portType name="PT">'
             b'<wsdl:operation name="f"><wsdl:input message="w:fIn"/></wsdl:operation></wsdl:portType>'
             b'<wsdl:binding name="B" type="w:PT"><soap:binding style="document" '
             b'transport="http://schemas.xmlsoap.org/soap/http"/><wsdl:operation name="f"><soap:operation '
             b'soapAction="f"/><wsdl:input><soap:body use="literal"/></wsdl:input></wsdl:operation></wsdl:binding>'
             b'<wsdl:service name="S"><wsdl:port name="P" binding="w:B"><soap:address location="http://x.invalid/"/>'
             b'</wsdl:port></wsdl:service></wsdl:definitions>')
        c = wsdlkit.client(w, nosend=True)
        root, kids = K.body_children(wsdlkit.envelope_bytes(c.service.f("x")))
        return list(kids[0]["children"][0]["name"]) != [None, "item"]
    if kind == "block-form":
        extra = ('<xsd:schema targetNamespace="%s" elementFormDefault="qualified"><xsd:complexType name="T2">'
                 '<xsd:sequence><xsd:element name="m" type="xsd:int"/></xsd:sequence></xsd:complexType>'
                 '<xsd:element name="E3" type="x:T2"/></xsd:schema>' % wsdlkit.TNS)
        w = wsdlkit.wsdl_doc('<xsd:element name="E1" type="xsd:int"/>', input=["E1", "E3"], form="unqualified",
                             extra_schemas=extra)
        c = wsdlkit.client(w, nosend=True)
        root, kids = K.body_children(wsdlkit.envelope_bytes(c.service.f(1, {"m": 3})))
        return list(kids[1]["children"][0]["name"]) != [wsdlkit.TNS, "m"]
    return None


def replay(ctx, payload):
    f = payload.get("failure") or (payload.get("disagreement") or {})
    m = f.get("input") or {}
    if "graph" in m:
        from suds.xsd.depsort import dependency_sort
        g = [(e[0], e[1]) for e in m["graph"]]
        real = [k for k, _ in dependency_sort(dict(g))]
        model = ctx.driver.ask([{"op": "depsort", "graph": [{"k": k, "deps": ds} for k, ds in g]}])[0]
        return {"fails": bool(contract_violations(g, real)), "real": real, "model": model,
                "violations": contract_violations(g, real)}
    if "iface" in m:
        I = K.iface_of(m["iface"])
        docs = IF.render(K.rendering_of(m["rendering"]), I)
        return {"fails": bool(f), "recorded": f, "wsdl": docs["main.wsdl"].decode()}
    return {"fails": bool(f), "recorded": f}
