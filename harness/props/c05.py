"""C05 - Wire-format options never change what a request means."""
import itertools

from harness import common, wsdlkit, xmlread
from harness.props import c19

ID = "C05"
LEAN_MODULES = ["SudsModel.Props.C05"]
RULE = ("(A) namespace-well-formed Element trees built through the public API (mixed namespaces, shadowed and "
        "re-declared prefixes, default namespaces, prefixed attributes, QName-valued attributes) through "
        "promotePrefixes / normalizePrefixes / refitPrefixes: real result vs model, and the infoset read by expat "
        "before vs after; (B) requests of generated operations (derived types needing xsi:type, nillable None, "
        "qualified and unqualified local elements, two namespaces, raw Element values, Element headers) under all 16 "
        "settings of prefixes x prettyxml x xstq x sortNamespaces: each namespace-well-formed, all pairwise "
        "infoset-equal; non-trivial = the tree re-declares a prefix / the call needs xsi:type, xsi:nil or a raw "
        "element; distinct = distinct trees / (operation, arguments)"
        " ; plus: both serializers against the infoset computed from the tree's structure, the theorem's hypothesis evaluated per generated tree, the caller's raw Element left unchanged, a caller-made header using xs / xsi itself"
        ' ; caller trees that used Element.setnil()'
        ' ; a caller header using the envelope prefix (mustUnderstand)'
        ' ; white-space-only values; one client switched through all sixteen settings'
        ' ; a header part of a namespace without prefix (dict and tuple); a caller header using the envelope\'s xsi prefix'
        ' ; empty children and the place of text in a caller\'s element')
ASSUMPTIONS = ["PrefixNormalizer numbers prefixes in set iteration order: the model takes that order from the "
               "observed result (theorems do not depend on it)"]
PARTIAL = [{"theorem": "normalize_preserves_infoset / refit_preserves_infoset (whole-tree statements)",
            "missing": "proved for promotePrefixes: promote_preserves_infoset (every namespace-well-formed tree, by "
                       "induction over the tree with the parent's table threaded through the children; the unguarded "
                       "statement is refuted by promoteStmt_false); the model evaluates the theorem's hypothesis "
                       "(Elem.wellFormed) on every generated tree and the count is in the input distribution. The "
                       "normaliser and refitPrefixes have per-rule theorems only - their whole-tree claim rests on the "
                       "correspondence plus the expat oracle"}]
TRUSTED = []

XSI = xmlread.XSI
QATTRS = ((XSI, "type"), (None, "qref"))
URIS = {"p": "urn:p", "q": "urn:q", "r": "urn:r", "xsi": XSI}


def gen_tree(rng, depth, scope, default_ns):
    """A namespace-well-formed spec tree. scope: prefix->uri in scope."""
    s = {"name": rng.choice(["a", "b", "item"]), "pfx": None, "expns": None, "nsp": [], "attrs": [],
         "text": rng.choice([None, None, "t"]), "kids": []}
    scope = dict(scope)
    # declare / re-declare some prefixes here
    for p in rng.sample(["p", "q", "r", "xsi"], rng.randint(0, 2)):
        # (a prefix may also name the namespace some element states as its default namespace)
        u = URIS[p] if (p == "xsi" or rng.random() < 0.7) else rng.choice(["urn:alt1", "urn:alt2", "urn:d1"])
        s["nsp"].append([p, u])
        scope[p] = u
    if rng.random() < 0.25:
        s["expns"] = rng.choice(["urn:d1", "urn:d2", "urn:d1", URIS["p"], URIS["q"]])
    avail = [p for p in scope if p != "xsi"]
    if avail and rng.random() < 0.5:
        s["pfx"] = rng.choice(avail)
    used = set()
    for _ in range(rng.randint(0, 2)):
        if avail and rng.random() < 0.4:
            ap = rng.choice(avail)
        else:
            ap = None
        an = rng.choice(["k", "id", "v"])
        if an in used:
            continue
        used.add(an)
        s["attrs"].append([ap, an, rng.choice(["x", "", "plain text"])])
    if avail and rng.random() < 0.35:
        qp = rng.choice(avail)
        if "xsi" in scope and rng.random() < 0.5:
            s["attrs"].append(["xsi", "type", "%s:T" % qp])
        else:
            s["attrs"].append([None, "qref", "%s:T" % qp])
    if depth > 0:
        for _ in range(rng.choice([0, 1, 2, 3])):
            s["kids"].append(gen_tree(rng, depth - 1, scope, s["expns"] or default_ns))
    return s


def dump_sorted(n):
    return {"id": n["id"], "pfx": n["pfx"], "name": n["name"], "expns": n["expns"], "nsp": sorted(n["nsp"]),
            "attrs": n["attrs"], "text": n["text"], "kids": [dump_sorted(k) for k in n["kids"]]}


def info_of(xml):
    return xmlread.infoset(xmlread.parse(xml), QATTRS)


def spec_infoset(spec, scope=None, default=None):
    """The infoset a tree denotes, computed from its structure by the namespace rules (no serializer involved):
    a prefix means the nearest enclosing declaration of it, an unprefixed element is in the nearest explicit
    default namespace, an unprefixed attribute in none."""
    scope = dict(scope or {"xml": "http://www.w3.org/XML/1998/namespace"})
    for p_, u in spec["nsp"]:
        scope[p_] = u
    if spec.get("expns") is not None:
        default = spec["expns"] or None
    ns = scope.get(spec["pfx"]) if spec["pfx"] is not None else default
    attrs = []
    for ap, an, av in spec["attrs"]:
        key = [scope.get(ap) if ap is not None else None, an]
        if tuple(key) in QATTRS:
            qp, _, local = av.partition(":")
            attrs.append([key, {"qname": [scope.get(qp), local]}])
        else:
            attrs.append([key, av])
    attrs.sort(key=lambda a: (a[0][0] or "", a[0][1]))
    kids = [spec_infoset(k, scope, default) for k in spec["kids"]]
    txt = spec["text"] or ""
    if kids and not txt.strip():
        txt = ""
    return {"name": [ns, spec["name"]], "attrs": attrs, "text": txt, "children": kids}


def no_layout(info):
    kids = [no_layout(c) for c in info["children"]]
    return dict(info, text="".join(info["text"].split()) if kids else info["text"], children=kids)


def mask_no_ns(ref, other):
    """D23 classifier helper: replace the namespace of elements that are in no namespace in `ref`."""
    if len(ref["children"]) != len(other["children"]):
        return None
    if ref["name"][0] is None:
        other = dict(other, name=[None, other["name"][1]])
    kids = []
    for a, b in zip(ref["children"], other["children"]):
        m = mask_no_ns(a, b)
        if m is None:
            return None
        kids.append(m)
    return dict(other, children=kids)


def kf_unqualified_refit(f, k):
    """D24: prefixes=False on a tree where an unprefixed element inherits a default namespace from above an
    element that had a prefix; only those elements' namespaces differ."""
    return f.get("d23_shape") is True


def kf_raw_under_default(f, k):
    """D25: prefixes=False and a raw Element argument / header: the only difference is that elements of the raw
    subtree which are in no namespace inherit the enclosing default namespace."""
    if not (f.get("refit") and f.get("has_raw")):
        return False
    ref, got = f.get("ref_info"), f.get("got_info")
    if ref is None or got is None:
        return False
    return mask_no_ns(ref, got) == ref and ref != got


CLASSIFIERS = {"c05_unqualified_under_refit": kf_unqualified_refit, "c05_raw_under_default": kf_raw_under_default}


def refit_masked(spec, info, has_prefixed_ancestor=False, default=None):
    """Mask the namespace of every element of the D24 shape: unprefixed, no default namespace of its own,
    in a default namespace inherited from *above* an element that had a prefix."""
    name = info["name"]
    own_default = spec.get("expns") if spec.get("expns") is not None else default
    if spec.get("pfx") is None and spec.get("expns") is None and has_prefixed_ancestor and default is not None:
        name = ["*", name[1]]
    below = has_prefixed_ancestor or spec.get("pfx") is not None
    if spec.get("expns") is not None and spec.get("pfx") is None:
        below = False
    kids = [refit_masked(ks, ki, below, own_default) for ks, ki in zip(spec["kids"], info["children"])]
    return dict(info, name=name, children=kids)


ENVNS = "http://schemas.xmlsoap.org/soap/envelope/"


def tree_checks(ctx):
    from suds.sax.element import Element
    rng = ctx.rng
    reqs, metas = [], []
    for _ in range(ctx.pick(700, 15000)):
        inner = gen_tree(rng, 3, {"xsi": XSI}, None)
        for passname in ("promote", "message", "refit"):
            if passname == "message":
                # the shape Binding.get_message works on: Envelope (declares xsi) > Body-like child
                spec = {"name": "Envelope", "pfx": "SOAP-ENV", "expns": None,
                        "nsp": [["SOAP-ENV", ENVNS], ["xsi", XSI]], "attrs": [], "text": None, "kids": [inner]}
            else:
                spec = dict(inner, nsp=inner["nsp"] + ([["xsi", XSI]] if not any(p == "xsi" for p, _u in inner["nsp"]) else []))
            w = c19.World()
            root = c19.build(w, spec)
            before_dump, _ = w.dump()
            before_xml = root.plain()
            try:
                before = info_of(before_xml)
            except xmlread.XmlError as e:
                continue
            # the serializers themselves: what an XML processor reads from plain() / str() is what the tree denotes
            want = spec_infoset(spec)
            ctx.case(("serialize", common.digest(spec), passname), True)
            for sname, text in (("plain", before_xml), ("str", root.str())):
                try:
                    read = info_of(text)
                except xmlread.XmlError as e:
                    read = "not well-formed: %s" % e
                if sname == "str" and isinstance(read, dict):
                    # the pretty serializer adds line breaks and indentation between the children of an element
                    read, want_cmp = no_layout(read), no_layout(want)
                else:
                    want_cmp = want
                if passname == "promote" and read != want_cmp:
                    ctx.fail("the serialized tree does not denote the tree (a namespace declaration was lost or "
                             "misplaced)", {"tree": before_dump[0], "serializer": sname}, text, repr(want)[:600])
            if passname == "promote":
                root.promotePrefixes()
                req = {"op": "prefix.promote", "tree": before_dump[0], "fixed": True}
            elif passname == "message":
                body = root.children[0]
                body.normalizePrefixes()
                assign = [[u, p] for p, u in body.nsprefixes.items()]
                root.promotePrefixes()
                req = {"op": "prefix.message", "tree": before_dump[0], "assign": assign, "body": 0}
            else:
                root.refitPrefixes()
                req = {"op": "prefix.refit", "tree": before_dump[0]}
            after_dump, prob = w.dump()
            after_xml = root.plain()
            reqs.append(req)
            metas.append((passname, spec, before_dump[0], after_dump[0], before, after_xml))
    answers = ctx.driver.ask(reqs)
    # the hypothesis of promote_preserves_infoset (Elem.wellFormed), evaluated by the model on every generated tree
    wf = ctx.driver.ask([{"op": "prefix.wf", "tree": m[2]} for m in metas if m[0] == "promote"])
    wf = iter(wf)
    for (passname, spec, bd, ad, before, after_xml), ans in zip(metas, answers):
        inp = {"pass": passname, "tree": bd}
        hyp = next(wf) if passname == "promote" else None
        if hyp is not None:
            ctx.dist["promote:theorem-hypothesis-met=%s" % hyp["wf"]] += 1
            if hyp["wf"] and not hyp["preserved"]:
                ctx.disagree("prefix-pass/promote: model contradicts promote_preserves_infoset", inp, hyp, "preserved")
        redeclares = '"urn:alt' in common.canon(bd)
        ctx.case(common.digest(inp), redeclares or passname != "promote")
        ctx.dist["pass=" + passname] += 1
        if ans is not None:
            ctx.compare("prefix-pass/" + passname, inp, dump_sorted(ad), dump_sorted(ans))
        try:
            after = info_of(after_xml)
        except xmlread.XmlError as e:
            ctx.fail("%s left the tree not namespace-well-formed" % passname, inp, str(e), "every prefix declared")
            continue
        if after != before:
            d23 = passname == "refit" and refit_masked(spec, before) == refit_masked(spec, after)
            ctx.fail("%s changed the infoset" % passname, inp, after_xml, "same infoset", d23_shape=d23)


# ---------------------------------------------------------------- end to end: the 16 settings

SCHEMA2 = ('<xsd:schema targetNamespace="urn:other" elementFormDefault="unqualified" '
           'xmlns:xsd="http://www.w3.org/2001/XMLSchema"><xsd:complexType name="Loc"><xsd:sequence>'
           '<xsd:element name="city" type="xsd:string"/></xsd:sequence><xsd:attribute name="code" type="xsd:string"/>'
           '</xsd:complexType></xsd:schema>')


def make_wsdl(form):
    schema = ('<xsd:import namespace="urn:other"/>'
              '<xsd:complexType name="Base"><xsd:sequence><xsd:element name="a" type="xsd:string" nillable="true"/>'
              '<xsd:element name="n" type="xsd:int" minOccurs="0"/></xsd:sequence></xsd:complexType>'
              '<xsd:complexType name="Derived"><xsd:complexContent><xsd:extension base="x:Base"><xsd:sequence>'
              '<xsd:element name="b" type="xsd:string"/><xsd:element name="loc" type="o:Loc" minOccurs="0"/>'
              '</xsd:sequence></xsd:extension></xsd:complexContent></xsd:complexType>'
              '<xsd:element name="H" type="xsd:string"/>'
              '<xsd:element name="f"><xsd:complexType><xsd:sequence><xsd:element name="o" type="x:Base"/>'
              '<xsd:element name="raw" minOccurs="0"><xsd:complexType><xsd:sequence><xsd:any/></xsd:sequence>'
              '</xsd:complexType></xsd:element><xsd:element name="items" type="xsd:string" minOccurs="0" '
              'maxOccurs="unbounded"/></xsd:sequence></xsd:complexType></xsd:element>')
    # (the second header part is an element of a schema whose namespace no prefix is bound to anywhere above the
    # schema: the part binds one for its own reference)
    nohdr = ('<xsd:schema targetNamespace="urn:nohdr" elementFormDefault="qualified" '
             'xmlns:xsd="http://www.w3.org/2001/XMLSchema"><xsd:element name="NH"><xsd:complexType><xsd:sequence>'
             '<xsd:element name="tok" type="xsd:string"/></xsd:sequence></xsd:complexType></xsd:element></xsd:schema>')
    w = wsdlkit.wsdl_doc(schema, "f", None, form=form, extra_schemas=SCHEMA2 + nohdr,
                         header_parts=[("element", "x:H"), ("element", 'nh:NH" xmlns:nh="urn:nohdr')]).decode()
    return w.replace("<wsdl:definitions ", '<wsdl:definitions xmlns:o="urn:other" ', 1).encode()


def typed_header():
    """A caller-made header element that uses the conventional prefixes xs / xsi itself."""
    from suds.sax.element import Element
    e = Element("Token", ns=("h", "urn:hdr"))
    e.addPrefix("xs", xmlread.XSD)
    e.addPrefix("xsi", XSI)
    e.set("xsi:type", "xs:string")
    e.setText("tok")
    return e


def must_understand_header():
    """A caller-made header that uses the envelope's own prefix for a SOAP attribute, as callers do."""
    from suds.sax.element import Element
    e = Element("Session", ns=("ses", "urn:session"))
    e.setText("abc")
    e.set("SOAP-ENV:mustUnderstand", "1")
    return e


def envelope_xsi_header():
    """A caller-made header that marks itself nil by hand with the envelope's xsi prefix, as callers do."""
    from suds.sax.element import Element
    e = Element("Opt", ns=("op", "urn:opt"))
    e.set("xsi:nil", "true")
    return e


def raw_element(k):
    from suds.sax.element import Element
    e = Element("Raw%d" % k, ns=("rw", "urn:raw:%d" % k))
    e.set("at", "1")
    c = Element("inner")
    c.setText("t<&>%d" % k)
    e.append(c)
    if k % 2:
        e.setText("lead%d" % k)       # mixed content: text next to a child element
    if k in (6, 7, 9):
        # the caller marks a node of its own tree as nil through the element API
        g = Element("gone")
        g.setText("dropped")
        e.append(g)
        g.setnil()
    if k == 6:
        e.setnil(False)
    if k in (5, 7):
        e.append(Element("empty"))        # an empty child without attributes is content too: it is carried
    return e


def trim_mixed(info):
    """Pretty printing indents children: in mixed content only the text itself is compared."""
    if isinstance(info, dict) and "children" in info:
        if info["children"] and isinstance(info.get("text"), str):
            info = dict(info, text=info["text"].strip())
        return dict(info, children=[trim_mixed(c) for c in info["children"]])
    return info


def arg_sets(client, rng):
    out = []
    for variant in range(8):
        kind = variant % 4
        if kind == 0:
            o = {"a": "x", "n": 3}
        elif kind == 1:
            o = client.factory.create("{%s}Derived" % wsdlkit.TNS)
            o.a = None
            o.b = "bee"
        elif kind == 2:
            o = client.factory.create("{%s}Derived" % wsdlkit.TNS)
            o.a = "x & y"
            o.b = "" if variant < 4 else "  \t "        # (white space is a value too, under either serializer)
            o.loc = {"city": "Zürich", "_code": 'Z<&>"H\''}
        else:
            o = {"a": None}
        kw = {"o": o}
        if variant >= 4:
            kw["raw"] = raw_element(variant)
            kw["items"] = ["i1", "i2"]
        out.append(kw)
    return out


def option_checks(ctx):
    rng = ctx.rng
    from suds.sax.element import Element
    for form in ("qualified", "unqualified"):
        w = make_wsdl(form)
        headers_variants = [(), ("hv",), (raw_element(9),), (typed_header(),), (must_understand_header(),),
                            (envelope_xsi_header(),), ("hv", {"tok": "t"}), {"H": "hv", "NH": {"tok": "t"}},
                            {"NH": {"tok": "t"}}]
        base = wsdlkit.client(w, nosend=True)
        for ai, kw in enumerate(arg_sets(base, rng)):
            for hv in headers_variants:
                results = {}
                # the caller's raw Element as it is before any call: it must be carried intact and left as it is
                raw_before = kw["raw"].plain() if "raw" in kw else None
                for prefixes, pretty, xstq, sortns in itertools.product((True, False), repeat=4):
                    c = wsdlkit.client(w, nosend=True, prefixes=prefixes, prettyxml=pretty, xstq=xstq,
                                       sortNamespaces=sortns, soapheaders=hv)
                    args = dict(kw)
                    # factory objects belong to one client: rebuild per client
                    if hasattr(args["o"], "__metadata__"):
                        o2 = c.factory.create("{%s}Derived" % wsdlkit.TNS)
                        for k2, v2 in args["o"]:
                            setattr(o2, k2, v2)
                        args["o"] = o2
                    meta = {"form": form, "args": ai, "headers": repr(hv)[:40],
                            "options": {"prefixes": prefixes, "prettyxml": pretty, "xstq": xstq, "sortNamespaces": sortns}}
                    try:
                        env = wsdlkit.envelope_bytes(c.service.f(**args))
                    except Exception as e:
                        ctx.fail("request construction failed under an option setting", meta, repr(e), "a request")
                        continue
                    try:
                        info = trim_mixed(xmlread.infoset(xmlread.parse(env), drop_type_ns=not xstq))
                    except xmlread.XmlError as e:
                        ctx.fail("request is not namespace-well-formed", meta, str(e), "every prefix declared in scope")
                        continue
                    results[(prefixes, pretty, xstq, sortns)] = (info, env)
                    ctx.case(common.canon(meta), True)
                    # mixed content of the caller's element: its text stands where the caller put it - before the children
                    if "raw" in kw and kw["raw"].text is not None and kw["raw"].children:
                        body_part = env[env.find(b"Body"):]          # (a header may hold an element of the same shape)
                        lead, first_child = body_part.find(str(kw["raw"].text).encode()), body_part.find(b"<inner")
                        if not (0 <= lead < first_child):
                            ctx.fail("raw Element argument not carried intact", dict(meta, mixed_content="text after children"),
                                     [lead, first_child], "text before the first child")
                    # what the header holds, absolutely (not only the same under every setting)
                    want_h = None
                    if isinstance(hv, dict) or (len(hv) == 2 and isinstance(hv[1], dict)):
                        want_h = ([[wsdlkit.TNS, "H", "hv"]] if (not isinstance(hv, dict) or "H" in hv) else []) + \
                            [["urn:nohdr", "NH", None], ["urn:nohdr", "tok", "t"]]
                    elif len(hv) == 1 and getattr(hv[0], "name", None) == "Opt":
                        want_h = [["urn:opt", "Opt", None, [[XSI, "nil", "true"]]]]
                    if want_h is not None:
                        root = xmlread.parse(env)
                        hd = xmlread.find1(root, "Header")
                        got_h = []
                        for n_ in (list(xmlread.walk(hd))[1:] if hd is not None else []):
                            item = [n_["name"][0], n_["name"][1], (n_.get("text") or "").strip() or None]
                            if want_h and len(want_h[0]) == 4:
                                item.append(sorted([k_[0], k_[1], v_] for k_, v_ in n_["attrs"].items()))
                            got_h.append(item)
                        if got_h != want_h:
                            ctx.fail("the soap header entries are not the elements their declarations / the caller's "
                                     "element name", meta, got_h, want_h)
                    if raw_before is not None and (kw["raw"].plain() != raw_before or kw["raw"].parent is not None):
                        ctx.fail("building a request changed the caller's raw Element argument (the same object passed "
                                 "again no longer means the same)", meta, kw["raw"].plain(), raw_before)
                        kw = dict(kw, raw=suds_parse(raw_before))
                # all settings denote the same infoset (type namespaces dropped where xstq is off)
                ref_key = (True, False, True, True)
                if ref_key not in results:
                    continue
                ref_full = results[ref_key][0]
                ref_nons = trim_mixed(xmlread.infoset(xmlread.parse(results[ref_key][1]), drop_type_ns=True))
                for key, (info, env) in results.items():
                    ref = ref_full if key[2] else ref_nons
                    if info != ref:
                        meta = {"form": form, "args": ai, "headers": repr(hv)[:40],
                                "options": dict(zip(("prefixes", "prettyxml", "xstq", "sortNamespaces"), key))}
                        ctx.fail("request differs from the reference setting in meaning", meta, env.decode("utf-8"),
                                 results[ref_key][1].decode("utf-8"), refit=not key[0], ref_info=_as_tree(ref),
                                 got_info=_as_tree(info), has_raw=("raw" in kw or any(hasattr(h, "plain") for h in hv)))
                # raw elements are carried intact
                if "raw" in kw:
                    try:
                        want = trim_mixed(xmlread.infoset(xmlread.parse(raw_before)))
                    except xmlread.XmlError as e:
                        ctx.fail("the caller's element, built through the element API, is not namespace-well-formed",
                                 {"form": form, "args": ai}, str(e), "every prefix declared in scope")
                        continue
                    for key, (info, env) in results.items():
                        body = [c for c in info["children"] if c["name"][1] == "Body"][0]
                        rawnode = [c for c in body["children"][0]["children"] if c["name"][1] == want["name"][1]]
                        if not rawnode or rawnode != [want]:
                            if not key[0] and rawnode and _strip_ns(rawnode) == _strip_ns([want]):
                                continue   # namespace inheritance under prefixes=False: reported above (D23)
                            ctx.fail("raw Element argument not carried intact", {"form": form, "args": ai, "options": key},
                                     rawnode, want)


def toggled_client(ctx):
    """The options are read at every request: one client switched from setting to setting builds, each time, what a
    client constructed with that setting builds."""
    rng = ctx.rng
    w = make_wsdl("qualified")
    live = wsdlkit.client(w, nosend=True)

    def derived(c):
        o = c.factory.create("{%s}Derived" % wsdlkit.TNS)
        o.a, o.b = "va", "vb"
        return o
    # every one of the 16 settings, each entered from a setting that differs in xstq (and, by the shuffle, in others)
    combos = list(itertools.product((True, False), repeat=4))
    rng.shuffle(combos)
    off = [k for k in combos if not k[2]]
    on = [k for k in combos if k[2]]
    order = [k for pair in zip(off, on) for k in pair] + [off[0], on[-1], off[-1]]
    for step, key in enumerate(order):
        setting = dict(zip(("prefixes", "prettyxml", "xstq", "sortNamespaces"), key))
        meta = {"stream": "toggled-client", "step": step, "options": setting}
        ctx.case(common.canon(meta), True)
        try:
            live.set_options(**setting)
            got = wsdlkit.envelope_bytes(live.service.f(o=derived(live)))
            fresh = wsdlkit.client(w, nosend=True, **setting)
            want = wsdlkit.envelope_bytes(fresh.service.f(o=derived(fresh)))
            same = xmlread.infoset(xmlread.parse(got), drop_type_ns=False) == xmlread.infoset(xmlread.parse(want), drop_type_ns=False) \
                and (b"\n" in got.split(b"?>", 1)[-1]) == (b"\n" in want.split(b"?>", 1)[-1])
        except Exception as e:
            got, want, same = repr(e).encode(), b"a request", False
        if not same:
            ctx.fail("request differs from the reference setting in meaning", meta, got.decode("utf-8", "replace"),
                     want.decode("utf-8", "replace"))
            break


def suds_parse(text):
    from suds.sax.parser import Parser
    return Parser().parse(string=text.encode("utf-8")).root().detach()


def family_option_checks(ctx):
    """(C) the generated interface family (random renderings: same prefix names bound differently per schema
    block, namespaces without prefixes, derived types across namespaces, rpc/encoded): every request under all 16
    option settings is namespace-well-formed, means the same, and - with xstq on - is what the schema prescribes."""
    from harness import iface as IF, ifacecheck as K
    n_ifaces = ctx.pick(40, 400)
    for ident, I in K.family(ctx, n_ifaces, "C05"):
        docs = IF.render(K.rendering_of("r:" + ident), I)
        clients = {}
        for key in itertools.product((True, False), repeat=4):
            try:
                clients[key] = K.make_client(docs, prefixes=key[0], prettyxml=key[1], xstq=key[2], sortNamespaces=key[3])
            except Exception as e:
                ctx.fail("WSDL of the family does not load", {"iface": ident, "options": key}, repr(e), "a client")
        for op, case in [(o, cs) for o in I["ops"] for cs in (0, 1)]:
            args = K.args_of(ident, I, op, case)
            results = {}
            for key, c in clients.items():
                meta = {"iface": ident, "op": op["name"], "case": case, "family": True,
                        "options": dict(zip(("prefixes", "prettyxml", "xstq", "sortNamespaces"), key))}
                ctx.case(common.canon(meta), True)
                ctx.dist["family:" + op["style"]] += 1
                try:
                    mism, env = K.check_request(c, I, op, args, "object")
                except Exception as e:
                    ctx.fail("request construction failed under an option setting", meta, repr(e), "a request")
                    continue
                if mism and key[2]:
                    ctx.fail("request under this option setting is not the message the schema prescribes", meta,
                             mism[:4], "the prescribed message", envelope=env.decode("utf-8", "replace")[:2000])
                    continue
                try:
                    results[key] = (trim_mixed(xmlread.infoset(xmlread.parse(env), drop_type_ns=not key[2])), env)
                except xmlread.XmlError as e:
                    ctx.fail("request is not namespace-well-formed", meta, str(e), "every prefix declared in scope")
            ref_key = (True, False, True, True)
            if ref_key not in results:
                continue
            ref_full = results[ref_key][0]
            ref_nons = trim_mixed(xmlread.infoset(xmlread.parse(results[ref_key][1]), drop_type_ns=True))
            for key, (info, env) in results.items():
                ref = ref_full if key[2] else ref_nons
                if info != ref:
                    ctx.fail("request differs from the reference setting in meaning",
                             {"iface": ident, "op": op["name"], "family": True,
                              "options": dict(zip(("prefixes", "prettyxml", "xstq", "sortNamespaces"), key))},
                             env.decode("utf-8")[:2000], results[ref_key][1].decode("utf-8")[:2000])


def cross_namespace_derived_probe(ctx):
    """A derived type from another namespace, both schemas calling their own target namespace `tns`
    (and, second variant, neither having any prefix): the element keeps its namespace under every setting."""
    A, B = "urn:verif:a", "urn:verif:b"
    for variant in ("same-prefix", "no-prefix"):
        pa = ' xmlns:tns="%s"' % A if variant == "same-prefix" else ' xmlns="%s"' % A
        pb = ' xmlns:tns="%s" xmlns:a="%s"' % (B, A) if variant == "same-prefix" else ' xmlns="%s" xmlns:a="%s"' % (B, A)
        own_a = "tns:" if variant == "same-prefix" else ""
        schemas = ('<xsd:schema xmlns:xsd="http://www.w3.org/2001/XMLSchema"%s targetNamespace="%s" '
                   'elementFormDefault="qualified"><xsd:complexType name="Base"><xsd:sequence><xsd:element name="a" '
                   'type="xsd:string"/></xsd:sequence></xsd:complexType><xsd:element name="f"><xsd:complexType>'
                   '<xsd:sequence><xsd:element name="item" type="%sBase"/></xsd:sequence></xsd:complexType>'
                   '</xsd:element></xsd:schema>'
                   '<xsd:schema xmlns:xsd="http://www.w3.org/2001/XMLSchema"%s targetNamespace="%s" '
                   'elementFormDefault="qualified"><xsd:import namespace="%s"/><xsd:complexType name="Derived">'
                   '<xsd:complexContent><xsd:extension base="a:Base"><xsd:sequence><xsd:element name="b" '
                   'type="xsd:string"/></xsd:sequence></xsd:extension></xsd:complexContent></xsd:complexType>'
                   '</xsd:schema>' % (pa, A, own_a, pb, B, A))
        w = ('<?xml version="1.0"?><wsdl:definitions targetNamespace="urn:w" xmlns:wsdl="http://schemas.xmlsoap.org/wsdl/" '
             'xmlns:w="urn:w" xmlns:soap="http://schemas.xmlsoap.org/wsdl/soap/"><wsdl:types>%s</wsdl:types>'
             '<wsdl:message name="fIn"><wsdl:part name="parameters" element="q:f" xmlns:q="%s"/></wsdl:message>'
             '<wsdl:portType name="PT"><wsdl:operation name="f"><wsdl:input message="w:fIn"/></wsdl:operation>'
             '</wsdl:portType><wsdl:binding name="B" type="w:PT"><soap:binding style="document" '
             'transport="http://schemas.xmlsoap.org/soap/http"/><wsdl:operation name="f"><soap:operation '
             'soapAction="f"/><wsdl:input><soap:body use="literal"/></wsdl:input></wsdl:operation></wsdl:binding>'
             '<wsdl:service name="S"><wsdl:port name="P" binding="w:B"><soap:address location="http://x.invalid/"/>'
             '</wsdl:port></wsdl:service></wsdl:definitions>' % (schemas, A)).encode()
        for key in itertools.product((True, False), repeat=4):
            meta = {"probe": "cross-namespace-derived", "variant": variant,
                    "options": dict(zip(("prefixes", "prettyxml", "xstq", "sortNamespaces"), key))}
            ctx.case(common.canon(meta), True)
            try:
                c = wsdlkit.client(w, nosend=True, prefixes=key[0], prettyxml=key[1], xstq=key[2], sortNamespaces=key[3])
                o = c.factory.create("{%s}Derived" % B)
                o.a, o.b = "x", "y"
                root = xmlread.parse(wsdlkit.envelope_bytes(c.service.f(o)))
                item = xmlread.find1(xmlread.find1(xmlread.find1(root, "Body"), "f"), "item")
                names = [list(item["name"])] + [list(k["name"]) for k in item["children"]]
                t = xmlread.resolve_qname(item, item["attrs"][(xmlread.XSI, "type")])
                got = names + [list(t) if key[2] else [None, t[1]]]
            except Exception as e:
                got = "%s: %s" % (type(e).__name__, e)
            want = [[A, "item"], [A, "a"], [B, "b"], [B, "Derived"] if key[2] else [None, "Derived"]]
            if got != want:
                ctx.fail("an element holding a derived type of another namespace changes its meaning with the options",
                         meta, got, want)


def _as_tree(info):
    return {"name": info["name"], "attrs": info["attrs"], "text": info["text"],
            "children": [_as_tree(c) for c in info["children"]]}


def _strip_ns(nodes):
    return [{"name": n["name"][1], "text": n["text"], "children": _strip_ns(n["children"])} for n in nodes]


def run(ctx):
    cross_namespace_derived_probe(ctx)
    family_option_checks(ctx)
    tree_checks(ctx)
    option_checks(ctx)
    toggled_client(ctx)
    ctx.sample({"tree_pass": "promote", "note": "random namespace-well-formed trees"})
    ctx.sample({"options": "all 16 settings", "args": "Derived object with nillable None + raw Element + Element header"})


def widen(ctx):
    ctx.tier = "thorough"
    run(ctx)


def witness(ctx, k):
    w = k.get("witness") or {}
    if "doc" in w and "kind" not in w:
        from suds.sax.parser import Parser
        root = Parser().parse(string=w["doc"].encode()).root()
        before = info_of(root.plain())
        root.promotePrefixes()
        return info_of(root.plain()) != before
    if w.get("kind") == "raw-under-default":
        cl = wsdlkit.client(make_wsdl("qualified"), nosend=True, prefixes=False)
        env = wsdlkit.envelope_bytes(cl.service.f(o={"a": "x"}, raw=raw_element(4)))
        root = xmlread.parse(env)
        inner = [n for n in xmlread.walk(root) if n["name"][1] == "inner"]
        return bool(inner) and inner[0]["name"][0] is not None
    if w.get("kind") in ("unqualified-refit", "inherited-default-refit"):
        from suds.sax.parser import Parser
        root = Parser().parse(string=w["doc"].encode()).root()
        before = info_of(root.plain())
        root.refitPrefixes()
        return info_of(root.plain()) != before
    return False


def replay(ctx, payload):
    return {"fails": bool(payload.get("failure")), "recorded": payload.get("failure")}
