"""Small WSDL construction kit and client helpers used by several property checks."""
import suds
import suds.client
import suds.store
import suds.transport

TNS = "urn:verif:tns"
WNS = "urn:verif:wsdl"


def wsdl_doc(schema_content, input=None, output=None, op="f", tns=TNS, form="qualified",
             style="document", use="literal", extra_schemas="", header_parts=(), soap12=False,
             in_parts=None, out_parts=None, location="http://verif.invalid/svc", action="urn:act"):
    """One-operation WSDL. input/output: name(s) of top-level elements (document style) ;
    in_parts/out_parts: explicit [(partname, 'element'|'type', qname)] lists."""
    def parts(spec, elems):
        if spec is not None:
            return "".join('<wsdl:part name="%s" %s="%s"/>' % p for p in spec)
        if elems is None:
            return None
        if not isinstance(elems, (list, tuple)):
            elems = [elems]
        return "".join('<wsdl:part name="p%d" element="x:%s"/>' % (i, e) for i, e in enumerate(elems))
    pin = parts(in_parts, input)
    pout = parts(out_parts, output)
    soapns = "http://schemas.xmlsoap.org/wsdl/soap12/" if soap12 else "http://schemas.xmlsoap.org/wsdl/soap/"
    w = ['<?xml version="1.0" encoding="UTF-8"?>',
         '<wsdl:definitions targetNamespace="%s" xmlns:wsdl="http://schemas.xmlsoap.org/wsdl/" '
         'xmlns:w="%s" xmlns:x="%s" xmlns:soap="%s" xmlns:xsd="http://www.w3.org/2001/XMLSchema" '
         'xmlns:soapenc="http://schemas.xmlsoap.org/soap/encoding/">' % (WNS, WNS, tns, soapns),
         '<wsdl:types><xsd:schema targetNamespace="%s" elementFormDefault="%s">%s</xsd:schema>%s</wsdl:types>'
         % (tns, form, schema_content, extra_schemas)]
    if pin is not None:
        w.append('<wsdl:message name="fIn">%s</wsdl:message>' % pin)
    if pout is not None:
        w.append('<wsdl:message name="fOut">%s</wsdl:message>' % pout)
    for i, hp in enumerate(header_parts):
        w.append('<wsdl:message name="fHdr%d"><wsdl:part name="h" %s="%s"/></wsdl:message>' % (i, hp[0], hp[1]))
    w.append('<wsdl:portType name="PT"><wsdl:operation name="%s">' % op)
    if pin is not None:
        w.append('<wsdl:input message="w:fIn"/>')
    if pout is not None:
        w.append('<wsdl:output message="w:fOut"/>')
    w.append('</wsdl:operation></wsdl:portType>')
    body_attrs = 'use="%s"' % use
    if style == "rpc":
        body_attrs += ' namespace="%s"' % tns
    if use == "encoded":
        body_attrs += ' encodingStyle="http://schemas.xmlsoap.org/soap/encoding/"'
    w.append('<wsdl:binding name="B" type="w:PT"><soap:binding style="%s" '
             'transport="http://schemas.xmlsoap.org/soap/http"/><wsdl:operation name="%s">'
             '<soap:operation soapAction="%s" style="%s"/>' % (style, op, action, style))
    if pin is not None:
        hdrs = "".join('<soap:header message="w:fHdr%d" part="h" use="literal"/>' % i
                       for i in range(len(header_parts)))
        w.append('<wsdl:input><soap:body %s/>%s</wsdl:input>' % (body_attrs, hdrs))
    if pout is not None:
        w.append('<wsdl:output><soap:body %s/></wsdl:output>' % body_attrs)
    w.append('</wsdl:operation></wsdl:binding>')
    w.append('<wsdl:service name="S"><wsdl:port name="P" binding="w:B"><soap:address location="%s"/>'
             '</wsdl:port></wsdl:service></wsdl:definitions>' % location)
    return "".join(w).encode("utf-8")


def client(wsdl_bytes, extra_docs=None, **kw):
    store = suds.store.DocumentStore()
    docs = {"main.wsdl": wsdl_bytes}
    if extra_docs:
        docs.update(extra_docs)
    store.update(docs)
    kw.setdefault("cache", None)
    kw.setdefault("documentStore", store)
    return suds.client.Client("suds://main.wsdl", **kw)


class RecordingTransport(suds.transport.Transport):
    """Transport that records requests and answers from a queue / function."""

    def __init__(self, reply=None):
        suds.transport.Transport.__init__(self)
        self.sent = []
        self.opened = []
        self.reply = reply

    def __deepcopy__(self, memo=None):
        # like HttpTransport.__deepcopy__: a fresh transport with the same option values
        from suds.properties import Unskin
        clone = self.__class__(reply=self.reply)
        clone.sent = self.sent          # keep recording in one place
        Unskin(clone.options).update(Unskin(self.options))
        return clone

    def open(self, request):
        self.opened.append(request.url)
        raise suds.transport.TransportError("no such document: %s" % request.url, 404)

    def send(self, request):
        self.sent.append({"url": request.url, "headers": dict(request.headers), "message": request.message})
        r = self.reply
        if callable(r):
            r = r(request)
        if isinstance(r, Exception):
            raise r
        if r is None:
            return suds.transport.Reply(200, {}, b"")
        if isinstance(r, suds.transport.Reply):
            return r
        return suds.transport.Reply(200, {}, r)


def envelope_bytes(ctx_obj):
    env = ctx_obj.envelope
    if isinstance(env, str):
        env = env.encode("utf-8")
    return env
