"""Recording document store / transport for document-graph loading (C12)."""
import io

import suds
import suds.store
import suds.transport


STORM_LIMIT = 40


class FetchStorm(Exception):
    """One document was requested far more often than any load needs: the load is cut short (a loader that
    re-fetches along every path takes time exponential in the depth of the document graph)."""


class RecordingStore(suds.store.DocumentStore):
    def __init__(self, docs):
        suds.store.DocumentStore.__init__(self)
        self.update(docs)
        self.asked = []      # every URL the reader asked the store for
        self.served = []     # those it had
        self.storm = None

    def open(self, url):
        self.asked.append(url)
        if self.asked.count(url) > STORM_LIMIT:
            self.storm = url
            raise FetchStorm("%s requested %d times" % (url, self.asked.count(url)))
        content = suds.store.DocumentStore.open(self, url)
        if content is not None:
            self.served.append(url)
        return content


class GraphTransport(suds.transport.Transport):
    """Serves documents by URL; the k-th open (1-based) can be made to fail."""

    def __init__(self, docs, fault_at=None, fault_kind=None):
        suds.transport.Transport.__init__(self)
        self.docs = docs
        self.opened = []
        self.sent = []
        self.fault_at = fault_at
        self.fault_kind = fault_kind
        self.faulted = None

    def __deepcopy__(self, memo=None):
        return self

    def open(self, request):
        self.opened.append(request.url)
        if self.opened.count(request.url) > STORM_LIMIT:
            raise FetchStorm("%s requested %d times" % (request.url, self.opened.count(request.url)))
        if self.fault_at is not None and len(self.opened) == self.fault_at:
            self.faulted = request.url
            if self.fault_kind == "transport-error":
                raise suds.transport.TransportError("injected failure for %s" % request.url, 503)
            return io.BytesIO(b"<?xml version='1.0'?><a><b></a>")
        if request.url not in self.docs:
            raise suds.transport.TransportError("no such document: %s" % request.url, 404)
        return io.BytesIO(self.docs[request.url])

    def send(self, request):
        self.sent.append(request)
        return suds.transport.Reply(200, {}, b"")


def place(docs, decoys, rng):
    """Decide which documents the store holds (suds:// always; some http ones under their location) and which
    only the transport can serve. -> (store dict, transport dict)"""
    store, net = {}, {}
    for url, data in list(docs.items()) + list(decoys.items()):
        if url.startswith("suds://"):
            store[url.split("://", 1)[1]] = data
        elif rng.random() < 0.3:
            store[url.split("://", 1)[1]] = data
        else:
            net[url] = data
    return store, net
