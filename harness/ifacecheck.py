"""Glue between the abstract interface family (iface.py) and a live suds client:
argument conversion, request reading, spec matching, behavioural fingerprints."""
import datetime
import decimal

from harness import iface as IF
from harness import wsdlkit
from harness import xmlread


def make_client(docs, **kw):
    extra = {k: v for k, v in docs.items() if k != "main.wsdl"}
    kw.setdefault("nosend", True)
    return wsdlkit.client(docs["main.wsdl"], extra_docs=extra, **kw)


def type_name(I, key):
    return "{%s}%s" % (I["namespaces"][key[0]]["uri"], key[1])


def suds_TypeNotFound():
    import suds
    return suds.TypeNotFound


def to_arg(client, I, ttype, value, mode="dict"):
    """Abstract value -> the Python argument a suds user would pass.
    mode 'dict': plain dicts wherever possible (factory objects only where a derived type must be named);
    mode 'object': factory objects for every complex value."""
    if value is None:
        return None
    if isinstance(value, list):
        return [to_arg(client, I, ttype, v, mode) for v in value]
    if ttype[0] == "b":
        return value
    if ttype[0] == "a":
        return [to_arg(client, I, I["arrays"][ttype[1]], v, mode) for v in value["__array__"]]
    key = ttype[1]
    real = value.get("__type__", key)
    members = {m["name"]: m for m, _, _ in IF.members_of(I, real)}
    if mode == "dict" and real == key:
        out = {}
        for k, v in value.items():
            if k == "__type__":
                continue
            if k.startswith("_"):
                out[k] = v
            else:
                out[k] = to_arg(client, I, members[k]["type"], v, mode)
        return out
    try:
        obj = client.factory.create(type_name(I, real))
    except suds_TypeNotFound():
        if real != key:
            raise
        # the rendering wrote this type as an anonymous type: it has no name to create it by
        return to_arg(client, I, ttype, value, "dict")
    for k, v in value.items():
        if k == "__type__":
            continue
        if k.startswith("_"):
            setattr(obj, k, v)
        else:
            setattr(obj, k, to_arg(client, I, members[k]["type"], v, mode))
    # members absent from the abstract value are absent from the message
    for m, _, in_choice in IF.members_of(I, real):
        if m["name"] not in value:
            setattr(obj, m["name"], [] if m["max"] == "unbounded" else None)
    for a, _ in IF.attrs_of(I, real):
        if "_" + a["name"] not in value:
            setattr(obj, "_" + a["name"], None)
    return obj


def param_name(op, p):
    """The keyword a caller uses: the element's name (bare parts are global elements)."""
    return "%s_%s" % (op["name"], p["name"]) if op["style"] == "bare" else p["name"]


def suds_unwraps(op, side="in"):
    """suds treats every single-part document/literal message whose element has a complex type as
    'wrapped' (Definitions.set_wrapped): the caller passes the type's members, not the element."""
    ps = op[side]
    return op["style"] == "bare" and len(ps) == 1 and ps[0]["type"][0] == "c"


def call_args(client, I, op, args, mode="dict"):
    if suds_unwraps(op):
        p = op["in"][0]
        v = args[p["name"]]
        members = {m["name"]: m for m, _, _ in IF.members_of(I, p["type"][1])}
        return {k: to_arg(client, I, members[k]["type"], x, mode) for k, x in v.items()}
    return {param_name(op, p): to_arg(client, I, p["type"], args[p["name"]], mode)
            for p in op["in"] if p["name"] in args}


def gen_args(rng, I, op):
    args = {}
    for p in op["in"]:
        v = IF.gen_member_value(rng, I, p, 0)
        if v is None and op["style"] in ("bare", "rpclit", "rpcenc"):
            v = IF.gen_value(rng, I, p["type"], 1)
        if op["style"] in ("rpclit", "rpcenc") and rng.random() < 0.15:
            v = None        # suds treats rpc parts as optional: the accessor is left out
        if suds_unwraps(op):
            # the wrapper's own attributes / a derived wrapper type cannot be named through the unwrapped call
            v = IF.gen_value(rng, I, p["type"], 1, allow_derived=False)
            v = {k: x for k, x in v.items() if not k.startswith("_")}
        args[p["name"]] = v
    return args


def body_children(envelope):
    """Independent read of the request: -> (root, [Body children]) ; raises xmlread.XmlError when not
    namespace-well-formed."""
    root = xmlread.parse(envelope)
    if tuple(root["name"]) != (xmlread.ENV11, "Envelope"):
        raise xmlread.XmlError("root is %r" % (root["name"],))
    body = xmlread.find1(root, "Body", xmlread.ENV11)
    if body is None:
        raise xmlread.XmlError("no Body")
    return root, body["children"]


def match(spec, node, path="", out=None):
    """Compare an expected node (iface.spec_element) with a parsed one; -> list of mismatch strings."""
    out = [] if out is None else out
    here = "%s/%s" % (path, spec["name"][1])
    if list(node["name"]) != list(spec["name"]):
        out.append("%s: name %r expected %r" % (here, list(node["name"]), spec["name"]))
        return out
    got = dict(node["attrs"])
    for k, v in spec["attrs"]:
        k = tuple(k)
        if k not in got:
            out.append("%s: attribute %r missing" % (here, k))
            continue
        g = got.pop(k)
        if isinstance(v, dict):
            dim = ""
            if "dim" in v:
                g, _, dim = g.partition("[")
                dim = "[" + dim
                if dim != v["dim"]:
                    out.append("%s: attribute %r dimension %r expected %r" % (here, k, dim, v["dim"]))
            try:
                q = xmlread.resolve_qname(node, g)
            except xmlread.XmlError as e:
                out.append("%s: %s" % (here, e))
                continue
            if list(q) != v["qname"]:
                out.append("%s: attribute %r = %r expected %r" % (here, k, q, v["qname"]))
        elif isinstance(v, tuple):
            if not IF.value_equal_lex(v[1], g, v[2]):
                out.append("%s: attribute %r = %r does not denote %r" % (here, k, g, v[2]))
        elif g != v:
            out.append("%s: attribute %r = %r expected %r" % (here, k, g, v))
    for k in got:
        out.append("%s: unexpected attribute %r=%r" % (here, k, got[k]))
    text = node.get("text", "")
    if isinstance(spec["text"], tuple):
        if not IF.value_equal_lex(spec["text"][1], text, spec["text"][2]):
            out.append("%s: text %r does not denote %s %r" % (here, text, spec["text"][1], spec["text"][2]))
    elif node["children"] or spec["children"]:
        if text.strip():
            out.append("%s: stray text %r" % (here, text))
    elif text != spec["text"]:
        out.append("%s: text %r expected %r" % (here, text, spec["text"]))
    sk, nk = spec["children"], node["children"]
    if [c["name"][1] for c in sk] != [c["name"][1] for c in nk]:
        out.append("%s: children %r expected %r" % (here, [c["name"][1] for c in nk], [c["name"][1] for c in sk]))
        return out
    for a, b in zip(sk, nk):
        match(a, b, here, out)
    return out


def check_request(client, I, op, args, mode="dict"):
    """-> (mismatches, envelope bytes); mode 'positional': values passed by position (None for an absent one)"""
    svc = getattr(client.service, op["name"])
    if mode == "positional":
        kw = call_args(client, I, op, args, "dict")
        if suds_unwraps(op):
            names = [m["name"] for m, _, _ in IF.members_of(I, op["in"][0]["type"][1])]
        else:
            names = [param_name(op, p) for p in op["in"]]
        pos = [kw.get(nm) for nm in names]
        while pos and pos[-1] is None:
            pos.pop()
        rc = svc(*pos)
    else:
        rc = svc(**call_args(client, I, op, args, mode))
    env = wsdlkit.envelope_bytes(rc)
    try:
        root, kids = body_children(env)
    except xmlread.XmlError as e:
        return ["not namespace-well-formed: %s" % e], env
    exp = IF.spec_request(I, op, args)
    if len(exp) != len(kids):
        return ["Body has %d children, expected %d" % (len(kids), len(exp))], env
    out = []
    for a, b in zip(exp, kids):
        match(a, b, "Body", out)
    return out, env


# ---------------------------------------------------------------- replies

def normal(x):
    """Schema-blind normal form of what suds returned."""
    import suds.sudsobject
    import suds.sax.text
    if isinstance(x, suds.sudsobject.Object):
        out = {"__class__": x.__class__.__name__}
        for k, v in suds.sudsobject.items(x):
            out[k] = normal(v)
        return out
    if isinstance(x, list):
        return [normal(v) for v in x]
    if isinstance(x, suds.sax.text.Text):
        return str(x)
    return x


def same_value(a, b):
    """Equality of normal forms that is strict about Python types (True != 1, 1 != 1.0)."""
    if isinstance(a, dict) and isinstance(b, dict):
        return list(a.keys()) == list(b.keys()) and all(same_value(a[k], b[k]) for k in a)
    if isinstance(a, list) and isinstance(b, list):
        return len(a) == len(b) and all(same_value(x, y) for x, y in zip(a, b))
    if isinstance(a, (dict, list)) or isinstance(b, (dict, list)):
        return False
    return type(a) is type(b) and a == b


def decode_reply(client, op, data):
    """Invoke op with an injected reply; -> normal form of the result."""
    svc = getattr(client.service, op["name"])
    args = {}
    return normal(svc(__inject={"reply": data}))


# ---------------------------------------------------------------- the generated family, replayable by name

import random


def iface_of(ident):
    """ident = '<tag>/<seed>/<i>[/enc]' -> the interface (deterministic)."""
    rng = random.Random("iface:" + ident)
    return IF.gen_iface(rng, encoded=ident.endswith("/enc"))


def family(ctx, n, tag, encoded_every=5):
    for i in range(n):
        ident = "%s/%s/%d" % (tag, ctx.seed, i)
        if encoded_every and i % encoded_every == encoded_every - 1:
            ident += "/enc"
        yield ident, iface_of(ident)


def rendering_of(rident, anonymous=True):
    """anonymous=False: never write a named type as an anonymous one (checks that look at type names)."""
    if rident == "canonical":
        return IF.canonical_rendering()
    r = IF.random_rendering(random.Random("render:" + rident))
    if not anonymous:
        r.anonymous = False
    return r


def args_of(ident, I, op, case):
    return gen_args(random.Random("args:%s:%s:%d" % (ident, op["name"], case)), I, op)


def outvals_of(ident, I, op, case):
    return IF.gen_outvals(random.Random("out:%s:%s:%d" % (ident, op["name"], case)), I, op)


def shape_stats(ctx, I, prefix="iface"):
    ctx.dist["%s:namespaces=%d" % (prefix, len(I["namespaces"]))] += 1
    ctx.dist["%s:types=%d" % (prefix, len(I["types"]))] += 1
    for t in I["types"].values():
        ctx.dist["%s:type.kind=%s" % (prefix, t["particle"]["kind"])] += 1
        if t["base"] is not None:
            ctx.dist["%s:type.extension" % prefix] += 1
            if t["base"][0] != [k for k, v in I["types"].items() if v is t][0][0]:
                ctx.dist["%s:type.extension-across-namespaces" % prefix] += 1
        if t["attrs"]:
            ctx.dist["%s:type.attributes" % prefix] += 1
    for op in I["ops"]:
        ctx.dist["%s:op.style=%s" % (prefix, op["style"])] += 1


def value_stats(ctx, v, prefix="value"):
    if v is None:
        ctx.dist[prefix + ":None"] += 1
    elif isinstance(v, list):
        ctx.dist[prefix + ":list.len=%s" % min(len(v), 3)] += 1
        for x in v:
            value_stats(ctx, x, prefix)
    elif isinstance(v, dict):
        if "__array__" in v:
            ctx.dist[prefix + ":array.len=%s" % min(len(v["__array__"]), 3)] += 1
            for x in v["__array__"]:
                value_stats(ctx, x, prefix)
            return
        ctx.dist[prefix + (":derived" if "__type__" in v else ":object")] += 1
        for k, x in v.items():
            if k == "__type__":
                continue
            if k.startswith("_"):
                ctx.dist[prefix + ":attribute"] += 1
            else:
                value_stats(ctx, x, prefix)
    else:
        ctx.dist[prefix + ":leaf." + type(v).__name__] += 1
