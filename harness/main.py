"""Entry point: ./check <ID> --tier quick|thorough [--replay FILE]   (DESIGN.md section 4)."""
import argparse
import importlib
import json
import os
import sys
import time
import traceback

sys.path.insert(0, os.path.dirname(os.path.dirname(os.path.abspath(__file__))))
from harness import common  # noqa: E402

TRUSTED_BASE = [
    "Lean 4.33 kernel (axioms allowed: propext, Classical.choice, Quot.sound; audited with #print axioms)",
    "tools/extract_tables.py (Python ast -> Lean tables, regenerated from /repo on every run)",
    "harness correspondence check (differential testing of the hand-written model against the real code)",
    "CPython runtime and standard library (re, str, list/dict, datetime, decimal, pickle, expat, urllib, threading)",
]


def write_replay(prop_id, payload):
    os.makedirs(common.REPLAY_DIR, exist_ok=True)
    name = "%s-%s.json" % (prop_id, common.digest(payload))
    path = os.path.join(common.REPLAY_DIR, name)
    with open(path, "w", encoding="utf-8") as f:
        json.dump(payload, f, indent=1, ensure_ascii=False, sort_keys=True, default=repr)
    return os.path.relpath(path, common.VERIF)


def guarded(ctx, fn):
    """Run a check phase. An exception that escapes it from INSIDE the implementation (the suds tree under test is
    running below the last harness frame), at a call the check makes unguarded because it must succeed, is a failure
    of the property on that call - not a harness error. Anything raised by the harness itself (or by a stub the
    harness handed to the implementation) still ends the run with exit 2."""
    import traceback
    try:
        fn(ctx)
    except Exception as e:
        frames = traceback.extract_tb(e.__traceback__)
        suds_dir = os.path.join(os.path.realpath(common.REPO), "suds") + os.sep
        # (also when the exception comes out of a library the implementation called - xml.sax, pickle, urllib -: what
        # counts is that, below the last frame of the harness, the implementation was running)
        harness_dir = os.path.dirname(os.path.realpath(__file__)) + os.sep
        in_suds = [os.path.realpath(f.filename).startswith(suds_dir) for f in frames]
        in_harness = [os.path.realpath(f.filename).startswith(harness_dir) for f in frames]
        last_h = max([i for i, h in enumerate(in_harness) if h], default=-1)
        below = [i for i, sd in enumerate(in_suds) if sd and i > last_h]
        if not frames or not below:
            raise
        inner = frames[below[-1]]
        site = frames[last_h] if last_h >= 0 else frames[0]
        ctx.fail("the implementation raised at a call that must succeed",
                 {"check_site": "%s:%d %s" % (os.path.relpath(site.filename, os.path.dirname(os.path.dirname(os.path.abspath(__file__)))), site.lineno, site.line),
                  "raised_in": "%s:%d" % (os.path.relpath(inner.filename, common.REPO), inner.lineno)},
                 "%s: %s" % (type(e).__name__, str(e)[:300]), "no exception",
                 traceback="".join(traceback.format_exception(type(e), e, e.__traceback__))[-3000:])
        ctx.notes.append("check phase %s stopped early: the implementation raised %s" % (fn.__name__, type(e).__name__))


def main():
    ap = argparse.ArgumentParser()
    ap.add_argument("prop")
    ap.add_argument("--tier", default=os.environ.get("VERIF_TIER", "quick"), choices=["quick", "thorough"])
    ap.add_argument("--replay")
    ap.add_argument("--no-lean", action="store_true", help="development only: skip the Lean build/audit")
    args = ap.parse_args()
    prop_id = args.prop.upper()
    try:
        seed = int(os.environ.get("VERIF_SEED", "0"))
    except ValueError:
        seed = 0
    t0 = time.time()
    common.use_repo()
    try:
        mod = importlib.import_module("harness.props." + prop_id.lower())
    except ImportError:
        print("unknown property %s" % prop_id)
        traceback.print_exc()
        return 2

    if args.replay:
        payload = json.load(open(args.replay, encoding="utf-8"))
        drv = common.Driver()
        ctx = common.Ctx(prop_id, args.tier, seed, drv, common.load_known())
        ctx.classifiers = getattr(mod, "CLASSIFIERS", {})
        res = mod.replay(ctx, payload)
        print(json.dumps(res, indent=1, ensure_ascii=False, default=repr))
        return 1 if res.get("fails") else 0

    # 1. Lean side: translator, theorems, axioms audit
    if args.no_lean:
        st = common.LeanStatus()
    else:
        st = common.lean_check(prop_id, mod.LEAN_MODULES, want_clean=(args.tier == "thorough"),
                               leanchecker=(args.tier == "thorough" and os.environ.get("VERIF_LEANCHECKER", "1") == "1"))
    drv = common.Driver(available=st.driver_ok)

    # 2. corpus + generated cases: correspondence and property oracle
    known = common.load_known()
    ctx = common.Ctx(prop_id, args.tier, seed, drv, known)
    ctx.classifiers = getattr(mod, "CLASSIFIERS", {})
    ctx.lean = st
    guarded(ctx, mod.run)

    # 3. widen the search when a proof obligation or the correspondence broke
    broken = st.broken() or bool(ctx.disagreements)
    if broken and not ctx.failures and hasattr(mod, "widen"):
        ctx.widened = True
        guarded(ctx, mod.widen)

    # known findings: re-run each listed witness
    kf_lines = []
    for k in ctx.known:
        if k.get("status") == "open":
            rep = None
            if hasattr(mod, "witness"):
                try:
                    rep = bool(mod.witness(ctx, k))
                except Exception as e:
                    ctx.notes.append("witness %s crashed: %r" % (k["id"], e))
            ctx.kf_reproduced[k["id"]] = rep
            if rep is not False:
                kf_lines.append("KNOWN-FINDING: property=%s %s %s" % (prop_id, k["id"], k["what"]))
            else:
                ctx.notes.append("known finding %s no longer reproduces on this tree" % k["id"])
        elif k.get("status") == "fixed" and hasattr(mod, "witness"):
            # a fixed entry suppresses nothing: if the witness fails again it is a violation
            try:
                if mod.witness(ctx, k):
                    ctx.failures.append({"what": "fixed finding %s reproduces again: %s" % (k["id"], k["what"]),
                                         "input": k.get("witness"), "observed": "reproduces", "expected": "fixed"})
            except Exception as e:
                ctx.notes.append("witness %s crashed: %r" % (k["id"], e))

    # 4. decide
    rc = 0
    lines = []
    violations = 0
    if ctx.failures:
        f = ctx.failures[0]
        if hasattr(mod, "shrink"):
            try:
                f = mod.shrink(ctx, f) or f
            except Exception as e:
                ctx.notes.append("shrink crashed: %r" % (e,))
        payload = {"property": prop_id, "kind": "failing-input", "seed": seed, "tier": args.tier,
                   "failure": f, "other_failures": len(ctx.failures) - 1,
                   "replay_cmd": "./check %s --replay <this file>" % prop_id,
                   "lean_broken": st.broken_what(), "disagreements": ctx.disagreements[:3]}
        path = write_replay(prop_id, payload)
        lines.append("VIOLATION property=%s replay=%s" % (prop_id, path))
        violations = len(ctx.failures)
        rc = 1
    elif broken:
        payload = {"property": prop_id, "kind": "no-failing-input-found", "seed": seed, "tier": args.tier,
                   "no_longer_checks": st.broken_what(),
                   "correspondence_disagreements": ctx.disagreements[:10],
                   "search": {"evaluations": ctx.evaluations, "widened": ctx.widened}}
        path = write_replay(prop_id, payload)
        lines.append("VIOLATION property=%s replay=%s no-failing-input-found" % (prop_id, path))
        violations = 1
        rc = 1

    # 5. evidence
    wall = time.time() - t0
    partial = getattr(mod, "PARTIAL", [])
    ev = {
        "property_id": prop_id,
        "tier": args.tier,
        "seed": seed,
        "level": "proof",
        "coverage": {
            "obligations": st.obligations,
            "discharged": st.discharged,
            "checker_cmd": "cd lean && lake build %s && lake env lean .audit/%s.lean  (#print axioms)%s" % (
                " ".join(mod.LEAN_MODULES), prop_id,
                " && lake env leanchecker " + " ".join(mod.LEAN_MODULES) if args.tier == "thorough" else ""),
            "trusted_base": TRUSTED_BASE + list(getattr(mod, "TRUSTED", [])),
            "theorems": [{"name": t["name"], "axioms": t.get("axioms"), "ok": t.get("ok")} for t in st.theorems],
            "non_vacuity_examples": st.examples,
            "partial": partial,
            "translator_ok": st.translator_ok,
            "lean_build_ok": st.build_ok,
            "lean_broken": st.broken_what(),
            "evaluations": ctx.evaluations,
            "distinct_nontrivial": len(ctx.nontrivial),
            "rule": getattr(mod, "RULE", ""),
            "samples": ctx.samples or [{"note": "no generated case"}],
            "exhaustive": bool(getattr(ctx, "exhaustive", False)),
            "correspondences": ctx.corr,
            "disagreements": ctx.disagreements[:5],
            "distribution": dict(ctx.dist),
            "known_findings": [{"id": k["id"], "status": k.get("status"), "what": k["what"],
                                "hits_this_run": ctx.kf_hits.get(k["id"], 0),
                                "witness_reproduces": ctx.kf_reproduced.get(k["id"])} for k in ctx.known],
            "widened_search": ctx.widened,
            "notes": ctx.notes[:20],
            "lean_wall_s": round(st.lean_wall_s, 2),
        },
        "assumptions": list(getattr(mod, "ASSUMPTIONS", [])),
        "wall_s": round(wall, 2),
        "violations": violations,
    }
    os.makedirs(common.EVIDENCE_DIR, exist_ok=True)
    with open(os.path.join(common.EVIDENCE_DIR, prop_id + ".json"), "w", encoding="utf-8") as f:
        json.dump(ev, f, indent=1, ensure_ascii=False, sort_keys=False, default=repr)

    for ln in kf_lines:
        print(ln)
    print("%s tier=%s seed=%d: obligations %d/%d, evaluations %d (distinct non-trivial %d), correspondences %s, "
          "known-finding hits %s, %.1fs" % (
              prop_id, args.tier, seed, st.discharged, st.obligations, ctx.evaluations, len(ctx.nontrivial),
              {k: (v["cases"], v["disagreements"]) for k, v in ctx.corr.items()}, dict(ctx.kf_hits), wall))
    for n in ctx.notes[:10]:
        print("note:", n)
    if st.broken():
        for w in st.broken_what():
            print("BROKEN:", w)
    for d in ctx.disagreements[:3]:
        print("DISAGREE:", common.canon(d)[:600])
    for f in ctx.failures[:3]:
        print("FAIL:", json.dumps(f, ensure_ascii=False, default=repr)[:800])
    for ln in lines:
        print(ln)
    return rc


if __name__ == "__main__":
    try:
        sys.exit(main())
    except SystemExit:
        raise
    except BaseException:
        traceback.print_exc()
        sys.exit(2)
